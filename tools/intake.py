#!/usr/bin/env python3
"""Intake of a seeded change written by a sub-agent: confirm it independently in a fresh scratch worktree
(applies, tests at baseline, demo fails with / passes without), store it under /verif/seeded/<id>/, then run the
named quick checks against /repo with the patch applied (and undo it straight afterwards)."""
import json
import os
import re
import shutil
import subprocess
import sys
import tempfile

VERIF = os.path.dirname(os.path.dirname(os.path.abspath(__file__)))
PY = "/venv/bin/python"


def sh(cmd, cwd=None, timeout=1800):
    p = subprocess.run(cmd, shell=True, cwd=cwd, capture_output=True, text=True, timeout=timeout)
    return p.returncode, p.stdout + p.stderr


def main():
    src, sid, prop = sys.argv[1], sys.argv[2], sys.argv[3]
    checks = sys.argv[4].split(",") if len(sys.argv) > 4 else [prop]
    needs = sys.argv[5] if len(sys.argv) > 5 else ""
    dst = os.path.join(VERIF, "seeded", sid)
    os.makedirs(dst, exist_ok=True)
    for f in ("patch.diff", "demo.py", "notes.txt"):
        if os.path.exists(os.path.join(src, f)):
            shutil.copy(os.path.join(src, f), os.path.join(dst, f))
    meta = {"id": sid, "property": prop, "needs_to_manifest": needs, "ran": []}
    wt = tempfile.mkdtemp(prefix="verify-", dir="/tmp")
    os.rmdir(wt)
    rc, out = sh("git -C /repo worktree add -q --detach %s HEAD" % wt)
    try:
        rc, out = sh("git apply --check %s/patch.diff && git apply %s/patch.diff" % (dst, dst), cwd=wt)
        meta["applies"] = rc == 0
        if rc != 0:
            meta["apply_error"] = out[-500:]
        rc, out = sh("%s -m pytest -q -p no:cacheprovider -x --co -q >/dev/null 2>&1; %s -m pytest -q -p no:cacheprovider 2>&1 | tail -3" % (PY, PY), cwd=wt)
        m = re.search(r"(\d+) failed, (\d+) passed", out) or re.search(r"(\d+) passed", out)
        meta["tests_with_patch"] = out.strip().splitlines()[-1] if out.strip() else ""
        meta["tests_at_baseline"] = "1 failed, 46 passed" in out
        shutil.copy(os.path.join(dst, "demo.py"), os.path.join(wt, "demo.py"))
        rc1, out1 = sh("%s demo.py" % PY, cwd=wt, timeout=600)
        meta["demo_with_patch_exit"] = rc1
        sh("git apply -R %s/patch.diff" % dst, cwd=wt)
        rc2, out2 = sh("%s demo.py" % PY, cwd=wt, timeout=600)
        meta["demo_without_patch_exit"] = rc2
        meta["ran"] += ["git apply patch.diff in a fresh worktree of /repo HEAD", "pytest -q -p no:cacheprovider (with patch)",
                        "python demo.py (with patch), git apply -R, python demo.py (without)"]
        meta["confirmed"] = bool(meta["applies"] and meta["tests_at_baseline"] and rc1 != 0 and rc2 == 0)
    finally:
        sh("git -C /repo worktree remove --force %s" % wt)
    # run my checks against the patched tree: /repo itself with the patch applied and undone straight afterwards, or
    # (INTAKE_SCRATCH=1, used while a background job is reading /repo) a second scratch worktree handed over with --repo
    meta["checks"] = {}
    if meta.get("confirmed") and os.environ.get("INTAKE_SCRATCH"):
        wt2 = tempfile.mkdtemp(prefix="intake-", dir="/tmp")
        os.rmdir(wt2)
        sh("git -C /repo worktree add -q --detach %s HEAD" % wt2)
        try:
            rc, out = sh("git apply %s/patch.diff" % dst, cwd=wt2)
            for c in checks:
                rc, out = sh("./check %s --repo %s --mutant-mode --no-minimise" % (c, wt2), cwd=VERIF)
                first = [l for l in out.splitlines() if l.startswith(("VIOLATION", "  oracle", "  variant", "HARNESS"))][:3]
                meta["checks"][c] = {"exit": rc, "caught": rc == 1, "lines": first}
        finally:
            sh("git -C /repo worktree remove --force %s" % wt2)
        meta["ran"].append("scratch worktree of /repo HEAD + patch.diff; ./check <id> --repo <worktree> --mutant-mode for %s" % ",".join(checks))
    elif meta.get("confirmed"):
        rc, out = sh("git -C /repo status --porcelain")
        if out.strip():
            print("REFUSING: /repo has uncommitted changes:\n" + out)
            sys.exit(2)
        rc, out = sh("git -C /repo apply %s/patch.diff" % dst)
        try:
            for c in checks:
                rc, out = sh("./check %s --mutant-mode --no-minimise" % c, cwd=VERIF)
                first = [l for l in out.splitlines() if l.startswith(("VIOLATION", "  oracle", "  variant", "HARNESS"))][:3]
                meta["checks"][c] = {"exit": rc, "caught": rc == 1, "lines": first}
        finally:
            sh("git -C /repo checkout -- .")
        meta["ran"].append("git -C /repo apply patch.diff; ./check <id> --mutant-mode for %s; git -C /repo checkout -- ." % ",".join(checks))
    meta["caught_by"] = sorted(c for c, v in meta["checks"].items() if v["caught"])
    with open(os.path.join(dst, "meta.json"), "w") as f:
        json.dump(meta, f, indent=1)
    print(json.dumps({k: meta[k] for k in ("id", "confirmed", "tests_with_patch", "demo_with_patch_exit", "demo_without_patch_exit", "caught_by")}))
    for c, v in meta["checks"].items():
        print(" ", c, v["exit"], v["lines"][:2])


if __name__ == "__main__":
    main()
