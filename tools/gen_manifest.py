#!/usr/bin/env python3
"""Regenerates /verif/MANIFEST.json from the per-property texts below (run after adding a profile)."""
import json
import os
import sys

VERIF = os.path.dirname(os.path.dirname(os.path.abspath(__file__)))
sys.path.insert(0, VERIF)
from dsim.profiles import PROPERTY_PROFILE  # noqa: E402

TRUST = ("Trusted: a fork of the worker's pristine image equals a new process; kernel tmpfs + CPython pathlib/glob/json "
         "behave like the production file system for the calls spil makes; the reference model's reading of the "
         "configuration (typing = first template whose patterns accept every segment, existence = created + path "
         "ancestors). Sampled, not exhaustive: a clean batch is evidence, not proof.")

CHECKS = {
    "C17": {
        "technique": "deterministic simulation: crash-point enumeration (process kill at every file-system effect and written byte) with recovery invariants checked in a new process; sidecar corruption injection",
        "category": "fault_enumeration",
        "text": "For every explored set/update (seeded histories: first write, overwrite, grow, shrink, after restart, after an earlier crash) the write's effect trace is discovered by a dry run and EVERY crash point of it (before the first effect, after each effect, after each byte prefix of each write) is executed from the identical warm pre-state; after each kill a new process checks old-or-new, other Sids untouched, searches unaffected, and that the next set succeeds. Every sidecar of a seeded world is corrupted by truncation at each byte, emptied, replaced by a directory, EACCES, EIO. Exhaustive per write, sampled over histories.",
        "ref": "DESIGN.md 5.4",
        "note": "Trusted: fork of the pristine image equals a new process; os._exit models process death (what reached the OS survives; no power-loss model); tmpfs + CPython io semantics; the seam layer sees every mutating call spil makes.",
    },
    "C11": {
        "technique": "deterministic simulation of a shared project tree: seeded store histories through the real writer, foreign-file (junk) fault injection, three finder parties compared with each other and a reference model on every reached state",
        "category": "exploration",
        "text": "Seeded histories build mirrored local/server universes through the real writer, interleaved with restarts, cache-capacity knobs, permuted directory listing and injected foreign content (misnamed files, desynchronised duplicate fields, unknown extensions, dot files, stray folders, files of another type in the wrong place, nested copies, case-variant folders). After every step searches of the C07/C09 family are answered by FindInPaths(local), FindInPaths(server), FindInList(model list) and FindInAll: pairwise equality (restricted as the statement says), equality with the model's ground truth for simple star searches (including constant-backed levels for FindInAll), no duplicates, no exception, and identical answers immediately before/after each junk injection.",
        "ref": "DESIGN.md 5.5",
        "note": TRUST,
    },
    "C09": {
        "technique": "deterministic simulation: seeded store histories, '>' searches answered by three finder parties on every reached state, checked against the same party's '*' answer by a segment-wise max rule",
        "category": "exploration",
        "text": "Universes with names sorting below '/' (bob, bob-x, bob.x, bob+x) and sparse version sets are built through the real writer; searches with '>' at any position (second '>', '*', alias, '**' elsewhere) are answered by FindInPaths x2, FindInList x2 and FindInAll; each answer must be exactly the per-group segment-wise maximum of the same party's answer with '>' read as '*', equal across parties (where all unfolded types are comparable), and sid.get_last(key) must be the single answer of the corresponding search. Searches whose unfolded forms do not carry '>' at one position are outside the statement and counted as gated.",
        "ref": "DESIGN.md 5.7",
        "note": TRUST,
    },
}

CHECKS["C15"] = {
    "technique": "deterministic simulation: seeded and exhaustively swept create/set/update/restart histories against a store reference model (refinement), invariants after every operation, process restarts as epochs",
    "category": "exploration",
    "text": "Random histories (<= 40 ops) and a bounded sweep of EVERY sequence of <= 4 (quick) / <= 5 (thorough) operations over an 8-operation alphabet (file, sibling, parent folder; create, set, update, restart) run through the real writer; after every operation: error behaviour (SpilException and byte-identical tree for create-existing, write-missing, no-path), star searches at every depth on FindInPaths (both configurations) and FindInAll equal the model's entity set (entity + path ancestors, nothing else), get_data of every alphabet Sid through a new Getter instance equals the overlay in call order, Sid.exists() equals the model; the same after restarts (new process). Sids sharing a sidecar (paths differing only by extension) are checked permissively.",
    "ref": "DESIGN.md 5.3",
    "note": TRUST,
}
CHECKS["C12"] = {
    "technique": "deterministic simulation: seeded store histories (creates, restarts, cache-capacity and listing-order knobs) with derived-call consistency invariants and a reference existence model evaluated on every reached state",
    "category": "exploration",
    "text": "On every reached store state, for a sampled finder (FindInPaths local/server, FindInList, FindInAll) and search of the C07 family: exists == (find non-empty), find_one == first of find (empty Sid / None when empty), as_sid=False == strings of as_sid=True in order, positional == keyword; for sampled concrete Sids (existing, non-existing, prefixes, constant-backed levels, untyped): exists() == FindInAll membership == model, children() == model set of existing Sids whose parent is the Sid (leaf: none), siblings() == model set sharing the parent, and every file-system-backed existing Sid has an existing parent when the parent level has a source.",
    "ref": "DESIGN.md 5.6",
    "note": TRUST,
}

CHECKS["C13"] = {
    "technique": "deterministic simulation of process lifetimes: seeded call histories in a warm executor compared call by call with a fresh twin process on the same disk, under cache-capacity, listing-order and hash-seed knobs; bounded sweep of ordered call pairs; cross-hash-seed replay",
    "category": "exploration",
    "text": "Every read-only call of an alphabet covering all cached entry points (Sid from string / uri / query / fields / path+config, path(config), unfold_search with every flag value, simple_typing, sid_to_dict(s), path_to_dict, get_path_config, get_finder, match, derived Sid calls, find / find_one / exists / children / siblings on three finders) in keyword and positional spellings is executed after seeded histories (<= 50 calls, store mutations, partially consumed generators, restarts, floods of distinct calls, capacity in {4096,64,8,2,1}) and must give the observation a fresh process (pristine fork, default capacity, same disk and listing order) gives; spellings of one call must agree; every clean run is replayed under PYTHONHASHSEED=0 and the per-call observation logs must match across the 8 hash seeds; every ordered pair of the base alphabet is run in a fresh epoch (bounded sweep).",
    "ref": "DESIGN.md 5.1",
    "note": TRUST + " resolva's internal lru_cache(128) cannot be resized; its eviction is reached by floods of > 128 distinct strings (probe counted).",
}

CHECKS["C14"] = {
    "technique": "deterministic simulation: seeded histories of public operations and mutation attempts on Sids held by a client across an epoch (shared cached instances, cache eviction, restarts), snapshot invariants after every step",
    "category": "exploration",
    "text": "A pool of up to 24 Sids (typed, untyped, search, same string with different forced types, built from string / uri / fields / query / path) is held by the client while seeded sequences of every public operation (copy, parent, get_as, get_with, '/', match, path, exists/children/siblings/get_last, rebuild from uri/str/Sid, eval(repr)) and mutation attempts on every returned container (fields: set / clear / update / pop / setdefault; children / siblings lists: clear / append) run on them and on Sids sharing their string, with cache floods and capacities down to 1. After every step every held Sid's (string, type, fields, uri, hash, str, repr, len, bool) must equal its snapshot at creation, a re-built same-uri Sid must equal the first one (also across restarts), and eq<=>uri-eq, eq=>hash-eq, Sid==str<=>str==str, '<' and sorted() by string, set/dict sizes = distinct uris hold on all pairs.",
    "ref": "DESIGN.md 5.2",
    "note": TRUST,
}
CHECKS["C05"] = {
    "technique": "deterministic simulation: seeded histories of path()/Sid(path=) calls in random order over both configurations with cache-capacity knob, restarts and a fresh twin process as purity oracle",
    "category": "exploration",
    "text": "Concrete Sids of every type (mapped project/type/state values, free-form values containing '_', '-', '.', '+', node / no-node cache files, untyped strings, path-less types) are taken through sid.path(c) (positional, keyword, default spelling) and Sid(path=p, config=c) in seeded random order, with either configuration touched first, the other configuration asked about the same path in between, capacities down to 1 and restarts. Checked at every position: no exception; None for untyped / path-less; round trip equals the Sid (uri and fields); the value equals every earlier observation in the run, the observation of a fresh twin process, and the template-formatted path of the reference model; no two Sids share a path within a run; local and server paths differ only by the configured root.",
    "ref": "DESIGN.md 5.11",
    "note": TRUST + " The input space (all Sids) is sampled, not enumerated.",
}

CHECKS["C10"] = {
    "technique": "deterministic simulation: seeded store histories (creates, junk, restarts, knobs); metamorphic rewrite relations between real answers of one finder party on the same reached store state",
    "category": "exploration",
    "text": "On reached store states (with and without injected junk) one finder party (FindInPaths local/server, FindInList, FindInAll) answers a search and its rewrites: a ',' list equals the union of its alternatives; an alias (last segment, and inside an ext filter) equals the union of its members; '**' equals the union over 0..n '/*' levels restricted to leaf types; an appended filter k=v at a wildcard position (or under '**') on a key every unfolded type owns selects exactly the unfiltered results with that value; a literal for '*' gives the subset with that value; no duplicates; every result typed and accepted by an independent matcher for the path part. Filter values are restricted to URL-safe characters (the query family of C02); filters on keys not owned by every unfolded type are gated (they deepen the search by design).",
    "ref": "DESIGN.md 5.8",
    "note": TRUST,
}
CHECKS["C16"] = {
    "technique": "deterministic simulation: seeded store histories with random attribute data written through the real writer; Getter answers compared record by record with Finder answers and the store model on every reached state",
    "category": "exploration",
    "text": "Trees with random attribute data (creates with data, set/update, restarts) are queried with searches of the C07 family through GetFromPaths(local/server) and GetFromAll with every attributes subset drawn from a key set (plus a missing key and 'sid') and three sid_encode functions: one record per Sid the finder yields, in the same order; 'sid' = encoded Sid or absent; other keys = the model's overlay, or exactly the requested keys with missing ones None; GetFromAll yields nothing (no exception) for types configured without a Getter; get_one = first record or {}, get_data = that Sid's record, get_attr / sid.get_attr = one value.",
    "ref": "DESIGN.md 5.9",
    "note": TRUST + " One open known finding (F2 in known_findings.json, DESIGN 12.5): GetFromAll.get repeats records when the ',' alternatives of a segment overlap ('*,literal'); the check asks such lists in a small share of its runs, prints KNOWN-FINDING for exact repeats and still reports every other violation.",
}
CHECKS["C18"] = {
    "technique": "deterministic simulation: seeded histories over trees with arbitrary version sets, publish chains create(get_new) with restarts, checked against a model of version sets",
    "category": "exploration",
    "text": "Task / version / state / file Sids (concrete, or with version '*' / '>') over reached trees with empty, dense, sparse and maximal version sets (v000, v998, v999 included; versions present for some state/extension combinations only): get_last = existing sibling with the greatest version (FindInAll existence model, other fields unchanged, empty Sid if none); get_next = version + 1 formatted like the pattern (first version without version, successor of the last existing for '*' / '>'); get_new = successor of the last existing version and not existing (no sibling: first version or own successor both accepted); beyond the last representable version the empty Sid, never an untyped one; publish chains create(get_new()) yield strictly increasing, never reused versions, also across restarts. Demo configuration only (NextGetter lives in the configuration package).",
    "ref": "DESIGN.md 5.10",
    "note": TRUST,
}

CHECKS["C20"] = {
    "technique": "deterministic simulation with the configuration as a seeded per-process build knob (swarm): the config-generic claimed oracles re-run in worker processes started on generated configuration packages",
    "category": "exploration",
    "text": "Configuration packages are emitted from a structural description (variant 0 mirrors the demo) under seeded transformations that keep the documented conventions: renamed keys / level keys / basetypes / type codes / leaf key, inserted and removed hierarchy levels, other file-name separators and fixed folders, changed closed vocabularies and digit widths, swapped sid/path vocabularies of a mapping, more projects, a third basetype, a third path configuration (optionally as default). Every variant is put first on the python path of fresh worker processes, and the config-generic claimed profiles run unchanged in them: paths (C05: round trip, purity, injectivity, roots, template-formatted path), finders (C11: three parties + model + junk invariance + local=server), derived (C12), algebra (C10 relations, which is where an alias/leaf-key dependence shows). Scoped to these claimed oracles; the pure sub-properties C01-C04, C06-C08 the statement also names are not claimed and only exercised incidentally.",
    "ref": "DESIGN.md 5.12",
    "note": TRUST + " Generated variants are well-formed by construction (confgen.py); a variant that failed to import would end the check with exit 2, not a violation. One open known finding (F1 in known_findings.json, DESIGN 12.5): a key NAMED 'frame' makes FindInPaths raise AttributeError (hard-coded key name); the check runs a dedicated variant for it, prints KNOWN-FINDING and still reports every other violation.",
}

NOT_APPLICABLE = {
    "C01": "pure function of one string and the static template table; no history, storage, entropy or fault in it (cache effects on it are C13/C14's subject); deciding it is input generation, not simulation",
    "C02": "pure function of one Sid (constructors are deterministic re-encodings); nothing for a schedule or fault to act on",
    "C03": "pure function of one Sid and a key; no state involved",
    "C04": "pure decision table over (Sid, query) evaluated against the static template table; no state involved",
    "C06": "pure function of (path string, configuration); its only history dependence is the cache-key defect owned by C13/C05",
    "C07": "pure function of one search string and the static configuration",
    "C08": "pure function of (list, search); FindInList has no store, cache or I/O (it is one of the three parties compared in C09-C12)",
    "C19": "pure function of two dictionaries, executed once at import",
}

PLANNED = {
    "C05": "paths", "C10": "algebra", "C12": "derived", "C13": "history", "C14": "values",
    "C15": "crud", "C16": "getter", "C18": "versions", "C20": "configs",
}


def main():
    checks = []
    for prop in sorted(set(PROPERTY_PROFILE) | {"C20"}):
        c = CHECKS[prop]
        checks.append({
            "property_id": prop,
            "quick_cmd": "./check %s --tier quick" % prop,
            "thorough_cmd": "./check %s --tier thorough" % prop,
            "evidence_file": "evidence/%s.json" % prop,
            "replay_cmd_template": "./check replay {path}",
            "engine": "storesim",
            "technique": c["technique"],
            "level_claimed": {"category": c["category"], "text": c["text"], "design_ref": c["ref"]},
            "level_note": c["note"],
        })
    na = [{"property_id": p, "reason": r} for p, r in sorted(NOT_APPLICABLE.items())]
    for p, prof in sorted(PLANNED.items()):
        if p not in PROPERTY_PROFILE and p != "C20":
            na.append({"property_id": p, "reason": "not built yet (planned: storesim profile '%s'); not claimed until its check exists" % prof})
    doc = {
        "version": 1,
        "setup_cmd": "/venv/bin/python -m compileall -q dsim && ./check selftest smoke",
        "hooks": {
            "guard": "SPIL_VERIF",
            "enable": "no source hook exists: every seam (process lifetime, file-system effects, crash points, listing order, read faults, cache capacity) is installed by monkeypatching inside the harness' own forked child processes; the guard name is reserved and unused by /repo",
            "baseline_off_cmd": "cd /repo && /venv/bin/python -m pytest -ra -q -p no:cacheprovider --timeout=900 --continue-on-collection-errors",
            "source_commits": [],
            "add_only": True,
        },
        "engines": [{
            "name": "storesim",
            "path": "dsim/",
            "serves_properties": sorted(set(PROPERTY_PROFILE) | {"C20"}),
            "kind_free_text": "deterministic simulation with fault injection: seeded operation/fault schedules executed by real spil code in forked executor processes (epochs); crash = os._exit at a chosen file-system effect or byte; restart = re-fork from a pristine image; foreign files, read errors, listing order, cache capacity, hash seed as seeded knobs; reference model + invariants after every step; ddmin minimisation; JSON replay files",
        }],
        "checks": checks,
        "not_applicable": na,
        "notes": "All checks: exit 0 held / 1 VIOLATION (not in known_findings.json) / 2 harness error. Two open findings are listed in known_findings.json and printed as KNOWN-FINDING lines (exit code unaffected): F1 under C20 (a configuration key NAMED 'frame' is hard-coded in FindInPaths), F2 under C16 and, in the thorough tier, C20 (GetFromAll repeats records for overlapping ',' alternatives); their replay files are findings/F1.replay.json and findings/F2.replay.json. 13 repaired defects are recorded there as 'fixed:' entries. VERIF_SEED, VERIF_TIER, VERIF_BUDGET_S, VERIF_WORKERS honoured. ./check selftest determinism|mutants|model|smoke are the framework's own self tests; seeded/ holds 192 independently written breaking changes with the checks that catch them (DESIGN 12.8).",
    }
    with open(os.path.join(VERIF, "MANIFEST.json"), "w") as f:
        json.dump(doc, f, indent=1)
    print("MANIFEST.json: %d checks, %d not applicable" % (len(checks), len(na)))


if __name__ == "__main__":
    main()
