"""Introspection of the loaded configuration as plain data (runs inside an executor child)."""


def _finder_desc(f, depth=0):
    if f is None:
        return None
    d = {"class": type(f).__name__}
    if hasattr(f, "key"):
        d["key"] = f.key
        d["values"] = list(f.values)
        d["parent"] = _finder_desc(getattr(f, "parent_source", None), depth + 1) if depth < 6 else None
    if hasattr(f, "config_name"):
        d["config"] = f.config_name
    return d


def introspect():
    import re
    import string
    from spil import conf, Sid
    from spil.sid.pathops.pathconfig import get_path_config

    spec = {}
    spec["sid_templates"] = [[k, v] for k, v in conf.sid_templates.items()]
    spec["leaf_keys"] = {str(k): v for k, v in conf.leaf_keys.items() if k is not None}
    spec["extension_alias"] = {k: list(v) for k, v in conf.extension_alias.items()}
    spec["narrowing"] = dict(conf.basetyped_search_narrowing)
    spec["key_types"] = {k: list(v) for k, v in conf.key_types.items()}
    spec["sep"] = conf.sidtype_keytype_sep
    spec["path_configs"] = dict(conf.path_configs)
    spec["default_path_config"] = conf.default_path_config
    spec["data_suffix"] = getattr(conf, "path_data_suffix", ".data.json")
    spec["search_symbols"] = list(conf.search_symbols)
    pcs = {}
    for name in conf.path_configs:
        pc = get_path_config(name)
        mapping = {}
        for k, v in pc.path_mapping.items():
            if isinstance(k, tuple):
                mapping["%s|%s" % k] = dict(v)
            else:
                mapping[k] = dict(v)
        pcs[name] = {
            "templates": [[k, v] for k, v in pc.path_templates.items()],
            "mapping": mapping,
            "defaults": dict(pc.path_defaults),
            "search_path_mapping": dict(pc.search_path_mapping),
            "extra": bool(pc.sidkeys_to_extrakeys or pc.extrakeys_to_sidkeys),
        }
    spec["path"] = pcs
    # routing: one representative star search per type
    routing = {}
    for t, tpl in conf.sid_templates.items():
        n = len(re.findall(r"\{\w+", tpl))
        s = Sid(t + ":" + "/".join(["*"] * n))
        r = {"typed_ok": bool(s) and s.type == t}
        try:
            r["finder"] = _finder_desc(conf.get_finder_for(s, None)) if s else None
        except Exception as ex:
            r["finder"] = {"error": type(ex).__name__}
        try:
            g = conf.get_getter_for(s, attribute=None, config=None) if s else None
            r["getter"] = type(g).__name__ if g is not None else None
        except Exception as ex:
            r["getter"] = "error:" + type(ex).__name__
        routing[t] = r
    spec["routing"] = routing
    return spec
