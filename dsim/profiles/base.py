"""Shared helpers for profiles: vocabulary, universe generation, data generation, common ops."""
from .. import x as X

# includes pairs where one name is another one plus the filename separator (x / x_y, rig_b vs task rig, Al / Al_1)
# ... and names that are words of another level's vocabulary, fixed folder names of the layout, digits only, upper case
NAME_POOL = ["bob", "bob-x", "bob.x", "bob+x", "alice", "Al", "Al_1", "x", "x_y", "dagger", "o0", "Zed", "a", "rig_b", "rig",
             "char", "WORK", "hamlet", "v001", "007", "BOB", "PROD", "OUTPUT", "w", "zoé", "Ünal_ß",
             "zoe\u0301", "Dr.X", "skull.V2"]      # (NFD twin of "zoé"; upper case after a dot)
PLAIN_NAMES = ["bob", "alice", "dagger", "Zed", "o0", "a"]
VERSION_NUMS = [0, 1, 2, 3, 9, 10, 11, 99, 100, 101, 127, 128, 129, 255, 256, 511, 512, 998, 999]
CROWD_NAMES = ["n%03d" % i for i in range(110)] + ["a_very_long_asset_name_of_more_than_forty_characters_x"]
ATTR_KEYS = ["comment", "author", "frames", "ok", "tags", "meta"]


class Profile:
    name = "?"
    prop = "?"
    level = "exploration"
    rule = "one case = one seeded run (operation + fault sequence); distinct = distinct abstract state marks reached"
    assumptions = [
        "a fork of the worker's pristine image (spil imported, never called) is equivalent to a new process (cross-checked by selftest)",
        "the kernel tmpfs driven by CPython pathlib/glob/json behaves like the production file system for the calls spil makes",
        "process death is modelled as os._exit: what reached the OS survives (no power-loss model)",
    ]

    def evaluations(self, stats, runs):
        return runs

    def params(self, rng, tier):
        # list_variant: how the FindInList parties are built (its constructor options are part of the public API)
        return {"listing": rng.choice(["sorted", "reversed", "shuffled"]),
                "list_variant": rng.choice(["plain"] * 6 + ["strip", "strip", "presort", "presort"])}

    def setup(self, run):
        run.start_epoch()

    def gen(self, run, i):
        return None

    def apply(self, run, step):
        raise NotImplementedError

    def finish(self, run):
        pass

    def simplify(self, step, violation):
        """Candidates for a simpler version of the failing step (minimiser hook)."""
        return []

    def nontrivial(self, res):
        """Key(s) that make this run distinct and non-trivial (for evidence)."""
        return res.get("states", [])


class Vocab:
    """Draws concrete values for template keys from the introspected patterns."""

    def __init__(self, model, names=None, allow_dot=True, crowd=False):
        self.m = model
        self.names = list(names or NAME_POOL)
        self.crowd = bool(crowd)
        if crowd:
            self.names = self.names + CROWD_NAMES   # many siblings in one directory / long result lists
        if not allow_dot:
            self.names = [n for n in self.names if "." not in n]
        self.alias_names = set(model.alias)
        if names is None or len(self.names) > 12:
            # free-form names that CONTAIN the text of an extension alias or of one of its members ('lighthouse' holds 'hou')
            al = sorted(model.alias)
            self.names += ["light%sse" % a for a in al[:2]] + ["%s_poster" % a for a in al[-1:]]
        # the configuration's own file-name separator(s): literal text between two placeholders of a file name
        import re as _re
        seps = set()
        for pt in model.path[model.default_config]["templates"]:
            tail = pt.template.rpartition("/")[2]
            for lit in _re.findall(r"\}([^{}/.]+)\{", tail):
                seps.add(lit)
        self.seps = sorted(seps) or ["_"]
        # values where one is the other plus the separator: what file-name globbing can confuse
        self.pair_names = ["rig", "x"] + ["rig%sb" % sp for sp in self.seps] + ["x%sy" % sp for sp in self.seps]

    def file_name_only(self, type_name, key):
        pt = self.m.path[self.m.default_config]["by_type"].get(type_name)
        if pt is None:
            return False
        head, _, tail = pt.template.rpartition("/")
        return ("{" + key) in tail and ("{" + key) not in head

    def values(self, type_name, key):
        v = self.m.vocab(type_name, key)
        if v[0] == "closed":
            return [a for a in v[1] if a not in self.alias_names]
        if v[0] == "digits":
            pre, width = v[1], v[2]
            nums = VERSION_NUMS + (list(range(12, 75)) if self.crowd else [])
            return [pre + str(n).zfill(width) for n in sorted(set(nums)) if len(str(n)) <= width]
        if v[0] == "free":
            if self.file_name_only(type_name, key):
                return self.pair_names + self.names[:3]   # few values, mostly separator pairs
            return list(self.names)
        return None

    def usable_types(self):
        out = []
        for t in self.m.types:
            if all(k is not None and self.values(t.name, k) for k in t.keys):
                out.append(t.name)
        return out


def gen_sid(rng, model, vocab, type_name, pool=None, reuse=0.7, prefix=None):
    """A concrete Sid string of the given type; values are reused from `pool` (key -> list) to share prefixes."""
    t = model.by_name[type_name]
    vals = []
    pre = prefix.split("/") if prefix else []
    for i, k in enumerate(t.keys):
        if i < len(pre):
            vals.append(pre[i])
            continue
        choices = vocab.values(type_name, k)
        used = [v for v in (pool or {}).get(k, []) if v in choices]
        if used and rng.random() < reuse:
            v = rng.choice(used)
        else:
            v = rng.choice(choices)
        vals.append(v)
        if pool is not None:
            pool.setdefault(k, [])
            if v not in pool[k]:
                pool[k].append(v)
    s = "/".join(vals)
    if model.natural_type(s) != type_name:
        return None
    return s


def gen_value(rng, depth=0):
    r = rng.random()
    if r < 0.35:
        return rng.choice(["", "x", "Updated topology", "né à l'aube", "a\"b\\c", "line1\nline2", "{not json", "0"])
    if r < 0.55:
        return rng.choice([0, 1, -7, 1001, 3.5])
    if r < 0.65:
        return rng.choice([True, False])
    if r < 0.72:
        return None
    if depth < 1 and r < 0.86:
        return [gen_value(rng, depth + 1) for _ in range(rng.randint(0, 3))]
    if depth < 1:
        return {k: gen_value(rng, depth + 1) for k in rng.sample(["a", "b", "c"], rng.randint(0, 2))}
    return "leaf"


def gen_data(rng, nmax=3, keys=ATTR_KEYS, big=False):
    n = rng.randint(1, nmax)
    d = {k: gen_value(rng) for k in rng.sample(keys, n)}
    if big:
        # beyond one, and sometimes beyond several, 8 KB buffers
        size = rng.choice([rng.randint(300, 900), rng.randint(8000, 9000), rng.randint(16000, 70000), rng.randint(66000, 140000)])
        d["blob"] = "".join(rng.choice("abcdefghij \n\"{}") for _ in range(size))
    return d


def writer(cfg):
    return X.call("WriteToPaths", cfg)


def getter(cfg):
    return X.call("GetFromPaths", cfg)


def finder_paths(cfg):
    return X.call("FindInPaths", cfg)


def do_create(run, cfg, s, data=None, oracle_prefix=None, obj=False):
    """Execute create through the real writer, update the model. Returns (expected_kind, obs).
    obj: hand the Sid over as a Sid object instead of a string (the API accepts both)."""
    kind = run.store.can_create(cfg, s)
    sv = X.sid(s) if obj else s
    a = [sv] if data is None else [sv, X.lit(data)]
    obs = run.do(X.meth(writer(cfg), "create", *a))
    if kind == "ok" and obs is True:
        run.store.create(cfg, s, data)
    return kind, obs


def do_write(run, cfg, s, how, data, obj=False):
    """Execute set/update through the real writer, update the model when it succeeds."""
    exists = run.store.exists(cfg, s)
    sv = X.sid(s) if obj else s
    if how == "set":
        ks = list(data)
        if ks and (sum(map(len, ks)) + len(ks)) % 3 == 0:
            # the documented other spelling: set(sid, attribute, value, **more)
            rest = {k: data[k] for k in ks[1:]}
            e = X.meth(writer(cfg), "set", sv, ks[0], data[ks[0]], **rest)
            run.probes["set_spelled_attribute_value"] += 1
        else:
            e = X.meth(writer(cfg), "set", sv, **data)
    else:
        e = X.meth(writer(cfg), "update", sv, X.lit(data))
    obs = run.do(e)
    if exists and obs is True:
        run.store.write(cfg, s, data)
    return exists, obs


def creatable_types(model, vocab, cfg):
    return [t for t in vocab.usable_types() if model.has_path(t, cfg)]


def file_types(model, vocab, cfg):
    return [t for t in creatable_types(model, vocab, cfg) if model.is_leaf_type(t)]
