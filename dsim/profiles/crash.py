"""C17 -- an interrupted attribute write leaves the old or the new data, never a ruin (DESIGN 5.4).

Level: fault_enumeration. For each explored write every crash point of its (discovered) effect
trace is executed as a crash branch from the identical warm pre-state; recovery invariants are
checked in a new process. Second half: every sidecar corrupted by truncation at each byte,
emptied, made a directory, made unreadable.
"""
import json
import os
import shutil

from .. import x as X
from .base import (Profile, Vocab, gen_sid, gen_data, writer, getter, finder_paths, do_create, do_write,
                   creatable_types, file_types, PLAIN_NAMES)

MAX_ALL_BYTES = 400


def byte_offsets(n, tier, rng=None):
    """Byte prefixes 1..n-1 of a write of n bytes (all when small, else boundaries + sample)."""
    if n <= 1:
        return []
    if n <= MAX_ALL_BYTES:
        return list(range(1, n))
    offs = set(range(1, 33)) | set(range(n - 32, n))
    step = max(1, n // 64)
    offs |= set(range(1, n, step))
    return sorted(o for o in offs if 0 < o < n)


GARBAGE = {
    "latin1": '{"comment": "caf\u00e9"}'.encode("latin-1"),
    "utf16_bom": '{"comment": "x"}'.encode("utf-16"),
    "binary": bytes(range(128, 256)) * 3,
    "nul": b"\x00" * 64,
    "deep": b"[" * 20000,
}


class CrashProfile(Profile):
    name = "crash"
    prop = "C17"
    level = "fault_enumeration"
    rule = ("one case = one crash point of one explored set/update (before the first effect, after every effect, after "
            "every byte prefix of every write effect; payloads > 400 bytes: boundaries + first/last 32 + 64 sampled offsets) "
            "or one corruption of one sidecar (truncation at each byte, emptied, directory, EACCES, EIO), each followed by "
            "recovery checks R1-R5 in a new process; distinct = distinct (write shape, effect kinds of the trace, crash kind, "
            "byte class first 3 / middle / last 3, write through set or update, other Sids present) and (corruption mode, byte class) marks")

    def evaluations(self, stats, runs):
        return stats.get("crash_points", 0) + stats.get("corruptions", 0)

    def params(self, rng, tier):
        p = super().params(rng, tier)
        p["n_entities"] = rng.randint(2, 5)
        p["n_crashwrites"] = rng.choice([1, 1, 2]) if tier == "quick" else rng.randint(1, 3)   # 2+: crash again during a later write
        p["big"] = rng.random() < (0.15 if tier == "quick" else 0.3)
        return p

    # ------------------------------------------------------------------ generation
    def _plan(self, run):
        rng, m = run.rng, run.m
        vocab = Vocab(m, names=PLAIN_NAMES)
        shadow = run.store.clone()
        plan = []
        pool = {}
        cfgs = m.configs
        main_cfg = rng.choice(cfgs)
        # universe: a few entities, several sharing one directory
        ftypes = file_types(m, vocab, main_cfg)
        ctypes = creatable_types(m, vocab, main_cfg)
        base = None
        for i in range(run.params["n_entities"]):
            cfg = main_cfg if rng.random() < 0.8 else rng.choice(cfgs)
            t = rng.choice(ftypes if rng.random() < 0.7 else ctypes)
            s = gen_sid(rng, m, vocab, t, pool, reuse=0.85)
            if s is None or shadow.can_create(cfg, s) != "ok":
                continue
            data = gen_data(rng) if rng.random() < 0.5 else None
            shadow.create(cfg, s, data)
            plan.append({"op": "create", "cfg": cfg, "sid": s, "data": data})
        # targets: existing entities (files and folders) without sidecar-sharing neighbours
        def targets(cfg):
            return [s for s in shadow.listing(cfg) if not shadow.shares_key(cfg, s)]
        for j in range(run.params["n_crashwrites"]):
            cfg = main_cfg
            cands = targets(cfg)
            if not cands:
                break
            s = rng.choice(cands)
            shape = rng.choice(["first", "overwrite", "overwrite", "grow", "shrink"])
            if shape != "first" and not shadow.data(cfg, s):
                d0 = gen_data(rng, big=(shape == "shrink" and run.params["big"]))
                plan.append({"op": "write", "cfg": cfg, "sid": s, "how": "update", "data": d0})
                shadow.write(cfg, s, d0)
            if rng.random() < 0.3:
                plan.append({"op": "restart"})
            how = rng.choice(["set", "update"])
            old = shadow.data(cfg, s) or {}
            if shape in ("overwrite", "shrink") and old:
                k = rng.choice(sorted(old))
                d = {k: "v%d" % j}
            else:
                d = gen_data(rng, big=(shape == "grow" and run.params["big"]))
            keep = rng.random() < 0.35
            plan.append({"op": "crashwrite", "cfg": cfg, "sid": s, "how": how, "data": d,
                         "points": "all", "keep": "pick" if keep else None})
            shadow.write(cfg, s, d)
        # one explored write whose serialised sidecar lands exactly on / next to a block boundary (4096, 8192 ...): the
        # size of a first, measured write tells the overhead of the writer's serialisation
        cands = targets(main_cfg)
        if cands and rng.random() < 0.2:
            s = rng.choice(cands)
            plan.append({"op": "write", "cfg": main_cfg, "sid": s, "how": "set", "data": {"blob": "a" * 300}, "measure": True})
            plan.append({"op": "boundary_crashwrite", "cfg": main_cfg, "sid": s})
            shadow.write(main_cfg, s, {"blob": "a"})
        # corruption of one sidecar (of an entity that has data)
        withdata = [s for s in shadow.listing(main_cfg) if shadow.data(main_cfg, s) and not shadow.shares_key(main_cfg, s)]
        if withdata:
            plan.append({"op": "corrupt", "cfg": main_cfg, "sid": rng.choice(withdata), "modes": "all"})
        return plan

    def gen(self, run, i):
        if i == 0:
            run.scratch["plan"] = self._plan(run)
        plan = run.scratch["plan"]
        if i >= len(plan):
            return None
        st = plan[i]
        if st["op"] == "boundary_crashwrite":
            size = run.scratch.get("measured")
            target = run.rng.choice([4096 - 1, 4096, 4096 + 1, 8192, 8192 + 1, 3 * 4096 + 1])
            n = 300 + target - size if isinstance(size, int) and size >= 300 else 0
            if n < 1:
                return {"op": "restart"}
            run.probes["crashwrite_sized_to_a_block_boundary"] += 1
            return {"op": "crashwrite", "cfg": st["cfg"], "sid": st["sid"], "how": "set", "data": {"blob": "a" * n},
                    "points": "all", "keep": None, "target": target}
        return st

    # ------------------------------------------------------------------ execution
    def apply(self, run, step):
        op = step["op"]
        if op == "create":
            kind, obs = do_create(run, step["cfg"], step["sid"], step.get("data"))
            if not ((kind == "ok" and obs is True) or (kind != "ok" and X.exc_name(obs) == "SpilException")):
                run.stats["precondition_unexpected"] += 1
        elif op == "write":
            exists, obs = do_write(run, step["cfg"], step["sid"], step["how"], step["data"])
            if not ((exists and obs is True) or (not exists and X.exc_name(obs) == "SpilException")):
                run.stats["precondition_unexpected"] += 1
            if step.get("measure"):
                mp = run.m.path_of_sid(step["sid"], step["cfg"])
                run.scratch["measured"] = run.do(X.call("getsize", X.call("data_path", mp))) if mp else -1
        elif op == "restart":
            run.start_epoch()
        elif op == "crashwrite":
            self._crashwrite(run, step)
        elif op == "corrupt":
            self._corrupt(run, step)
        else:
            raise ValueError(op)

    def _write_expr(self, step):
        if step["how"] == "set":
            return X.meth(writer(step["cfg"]), "set", step["sid"], **step["data"])
        return X.meth(writer(step["cfg"]), "update", step["sid"], X.lit(step["data"]))

    def _context(self, run, cfg, s):
        """Other Sids whose data must stay untouched, and searches whose answers must stay correct."""
        st = run.store
        others = [y for y in st.listing(cfg) if y != s and y not in st.shares_key(cfg, s)]
        segs = s.split("/")
        searches = ["/".join(segs[:-1] + ["*"]), "/".join(["*"] * len(segs))]
        if len(segs) > 1:
            searches.append("/".join(segs[:-2] + ["*", "*"]) if len(segs) > 2 else "*/*")
        return others, sorted(set(searches))

    def _recovery_image(self, run, warm=None):
        """A process forked from the pristine image whose pure caches (typing, unfolding, path mapping) are
        warm but which holds nothing that depends on disk content (spil caches no data). Recovery checks run
        in forks of it; every 8th case (and the first of each kind) uses a genuinely fresh executor instead,
        so 'new process' stays literal on a sample."""
        R = run.scratch.get("R")
        if R is None:
            R = run.new_executor()
            run.scratch["R"] = R
        if warm:
            R.obs(X.seq(*warm))
        return R

    def _observe_seq(self, run, exprs, fresh, knobs=None):
        if fresh:
            F = run.new_executor(**(knobs or {}))
            try:
                obs = run.do(X.seq(*exprs), ex=F)
            finally:
                F.close()
            run.stats["recoveries_in_fresh_process"] += 1
        else:
            br = self._recovery_image(run).branch(X.seq(*exprs), None, knobs)
            run.stats["calls"] += 1
            run.logev("recover", br["exit"], br["obs"])
            if br["exit"] != 0 or br["obs"] is None:
                from ..executor import HarnessError
                raise HarnessError("recovery branch failed: %r" % (br,))
            for k, v in (br.get("fired") or {}).items():
                run.fired[k] += v
            obs = br["obs"]
            run.stats["recoveries_in_recovery_image"] += 1
        return obs["~seq"]

    def _recover(self, run, cfg, s, old, new, others, searches, tag, retry_value, fresh=True):
        """Recovery invariants R1-R4 in a new process. Returns the surviving data."""
        g = getter(cfg)
        exprs = [X.meth(g, "get_data", s)]
        exprs += [X.meth(g, "get_data", y) for y in others]
        exprs += [X.meth(finder_paths(cfg), "find", q) for q in searches]
        exprs += [X.call("list", X.meth(g, "get", searches[0]))]
        exprs += [X.meth(writer(cfg), "set", s, retry=retry_value), X.meth(g, "get_data", s)]
        seq = self._observe_seq(run, exprs, fresh)
        it = iter(seq)
        obs = next(it)
        d = X.undict(obs)
        run.check(d is not None, "C17.R1.read_fails", {"at": tag, "sid": s, "got": obs})
        sidv = d.pop("sid", None)
        run.check(sidv == s, "C17.R1.sid_entry", {"at": tag, "sid": s, "got": sidv})
        run.check(d == old or d == new, "C17.R1.old_or_new",
                  {"at": tag, "sid": s, "got": d, "old": old, "new": new})
        survivor = d
        run.stats["survivor_new" if (d == new and new != old) else "survivor_old"] += 1
        # R2: every other Sid's data untouched
        for y in others:
            want = run.store.data(cfg, y)
            obs = next(it)
            dy = X.undict(obs)
            run.check(dy is not None, "C17.R2.other_read_fails", {"at": tag, "sid": y, "got": obs})
            dy.pop("sid", None)
            run.check(dy == want, "C17.R2.other_changed", {"at": tag, "sid": y, "got": dy, "want": want})
        # R3: searches still answer, leftovers are invisible
        for q in searches:
            obs = next(it)
            got = X.uris(obs)
            run.check(got is not None, "C17.R3.search_fails", {"at": tag, "search": q, "got": obs})
            want = run.store.find_simple(cfg, q)
            run.check(set(got) == want and len(got) == len(set(got)), "C17.R3.search_changed",
                      {"at": tag, "search": q, "got": sorted(got), "want": sorted(want)})
        obs = next(it)
        run.check(X.items(obs) is not None, "C17.R3.get_fails", {"at": tag, "search": searches[0], "got": obs})
        # R4: bounded liveness -- faults have stopped, the next set succeeds at once
        obs = next(it)
        run.check(obs is True, "C17.R4.retry_fails", {"at": tag, "sid": s, "got": obs})
        obs = next(it)
        d2 = X.undict(obs)
        run.check(d2 is not None, "C17.R4.read_after_retry_fails", {"at": tag, "got": obs})
        d2.pop("sid", None)
        want = dict(survivor)
        want["retry"] = retry_value
        run.check(d2 == want, "C17.R4.retry_data", {"at": tag, "got": d2, "want": want})
        return survivor

    def _points(self, trace, tier):
        pts = [{"after": -1}]
        for j, eff in enumerate(trace):
            if eff[0] == "write":
                for k in byte_offsets(eff[2], tier):
                    pts.append({"at": j, "bytes": k})
            pts.append({"after": j})
        return pts

    def _crashwrite(self, run, step):
        cfg, s = step["cfg"], step["sid"]
        st = run.store
        if not st.exists(cfg, s) or st.shares_key(cfg, s):
            # meaningless after minimisation: plain (failing) write, checked against the model
            do_write(run, cfg, s, step["how"], step["data"])
            return
        e = self._write_expr(step)
        old = st.data(cfg, s) or {}
        new = dict(old)
        new.update(json.loads(json.dumps(step["data"])))
        others, searches = self._context(run, cfg, s)
        w = run.world
        w.snapshot("cw")
        # discover the effect trace by a dry run in a branch (then restore)
        tree_before = {t[0]: t for t in w.tree()}
        dry = run.E.branch(e, None)
        run.logev("dry", dry["exit"], dry["trace"], dry["obs"])
        if dry["exit"] != 0 or dry["obs"] is not True:
            run.stats["precondition_unexpected"] += 1
            w.restore("cw")
            return
        trace = dry["trace"]
        run.stats["writes_enumerated"] += 1
        # untraced-effect probe: every path the write changed on disk must appear in its effect trace, otherwise
        # a mutating call escaped the seam layer (and with it crash enumeration)
        tree_after = {t[0]: t for t in w.tree()}
        changed = {k for k in set(tree_before) | set(tree_after) if tree_before.get(k) != tree_after.get(k)}
        traced = {os.path.relpath(os.path.join(w.root, t[1]), w.disks) for t in trace if t[1]}
        untraced = sorted(changed - traced)
        run.stats["untraced_effects"] += len(untraced)
        run.stats["untraced_effect_probes"] += 1
        if untraced:
            run.sample({"untraced_effects": untraced[:5]})
        w.restore("cw")
        pts = self._points(trace, run.tier) if step["points"] == "all" else step["points"]
        g = getter(cfg)
        self._recovery_image(run, warm=[X.meth(g, "get_data", y) for y in [s] + others] +
                             [X.meth(finder_paths(cfg), "find", q) for q in searches] +
                             [X.call("list", X.meth(g, "get", searches[0]))])
        shape = "first" if not old else ("overwrite" if set(step["data"]) & set(old) else "add")
        run.sample({"write": [step["how"], s, step["data"]], "trace": trace, "crash_points": len(pts)})
        keep = step.get("keep")
        if keep == "pick":
            keep = pts[run.rng.randrange(len(pts))]
            step["keep"] = keep
        kept = None
        n = 0
        for plan in pts:
            n += 1
            tag = json.dumps(plan, sort_keys=True)
            br = run.E.branch(e, plan)
            run.logev("branch", plan, br["exit"], br["trace"])
            kind = "none"
            if br["exit"] != 77:
                # the plan did not fire (trace shorter than planned): only legal for a replayed
                # plan against a changed tree; count it, the completed write is then just 'new'
                run.stats["plan_not_fired"] += 1
            else:
                if "at" in plan:
                    run.fired["crash_mid_write_byte"] += 1
                    kind = "byte"
                elif plan["after"] == -1:
                    run.fired["crash_before_first_effect"] += 1
                    kind = "start"
                else:
                    run.fired["crash_after_effect:" + trace[plan["after"]][0] if plan["after"] < len(trace) else "crash_after_effect"] += 1
                    kind = "after:" + (trace[plan["after"]][0] if plan["after"] < len(trace) else "?")
                if "at" in plan:
                    nb = trace[plan["at"]][2]
                    k = plan["bytes"]
                    bclass = k if k <= 3 else ("n-%d" % (nb - k) if nb - k <= 3 else "mid")
                else:
                    bclass = None
                run.case_mark("cp", shape, step["how"], kind, [t[0] for t in trace], bclass, bool(others), len(searches))
                run.state_mark("pre", run.world.digest() if False else shape, len(others))
            run.stats["crash_points"] += 1
            seen = run.scratch.setdefault("kinds_seen", set())
            fresh = (n % 8 == 1) or (kind not in seen) or run.params.get("all_fresh", False)
            seen.add(kind)
            survivor = self._recover(run, cfg, s, old, new, others, searches, tag, n, fresh=fresh)
            if keep is not None and plan == keep:
                kept = (survivor, n)
                w.snapshot("kept")
            w.restore("cw")
        if kept is not None:
            # continue the history from a crashed-and-recovered state
            w.restore("kept")
            run.start_epoch()
            survivor, n = kept
            if survivor == new:
                st.write(cfg, s, step["data"])
            st.write(cfg, s, {"retry": n})
            run.probes["continued_from_crashed_state"] += 1
        else:
            obs = run.do(e)
            if obs is True:
                st.write(cfg, s, step["data"])
            else:
                run.stats["precondition_unexpected"] += 1

    # ------------------------------------------------------------------ corruption half
    def _corrupt(self, run, step):
        cfg, s = step["cfg"], step["sid"]
        st = run.store
        if not st.exists(cfg, s) or not st.data(cfg, s) or st.shares_key(cfg, s):
            return
        p = run.world.real(run.m.sidecar_path(st.paths[cfg][s]))
        if not os.path.isfile(p):
            run.stats["precondition_unexpected"] += 1
            return
        with open(p, "rb") as f:
            content = f.read()
        n = len(content)
        if step["modes"] == "all":
            modes = [["trunc", k] for k in ([0] + byte_offsets(n, run.tier))] + [["dir"], ["eacces"], ["eio"]] + \
                    [["bytes", k] for k in sorted(GARBAGE)]
        else:
            modes = step["modes"]
        others, searches = self._context(run, cfg, s)
        rel = os.path.relpath(p, run.world.root)
        run.sample({"corrupt": s, "sidecar_bytes": n, "modes": len(modes)})
        for mode in modes:
            faults = {}
            if mode[0] == "trunc":
                with open(p, "wb") as f:
                    f.write(content[: mode[1]])
                run.fired["sidecar_truncated" if mode[1] else "sidecar_emptied"] += 1
            elif mode[0] == "bytes":
                # "unreadable or not valid JSON": written by another tool in another encoding, binary garbage, valid JSON
                # that is not an object
                with open(p, "wb") as f:
                    f.write(GARBAGE[mode[1]])
                run.fired["sidecar_garbage:" + mode[1]] += 1
            elif mode[0] == "dir":
                os.unlink(p)
                os.mkdir(p)
                run.fired["sidecar_is_directory"] += 1
            else:
                faults = {rel: mode[0]}
            run.stats["corruptions"] += 1
            run.case_mark("corrupt", mode[0], (min(mode[1], 3) if isinstance(mode[1], int) else mode[1]) if len(mode) > 1 else None, n > 100)
            tag = json.dumps(mode)
            fresh = (run.stats["corruptions"] % 8 == 1) or mode[0] not in ("trunc", "bytes")
            g = getter(cfg)
            has_getter = (run.m.routing.get(run.m.natural_type(s)) or {}).get("getter") == "GetFromPaths"
            use_all = cfg == run.m.default_config and has_getter
            exprs = [X.meth(g, "get_data", s), X.meth(g, "get_data", s, ["comment", "zzz"])]
            if use_all:
                exprs += [X.meth(X.call("GetFromAll"), "get_data", s), X.meth(X.sid(s), "get_attr", "comment")]
            exprs += [X.meth(g, "get_data", y) for y in others]
            for q in searches:
                exprs += [X.meth(finder_paths(cfg), "find", q), X.call("list", X.meth(g, "get", q))]
            try:
                it = iter(self._observe_seq(run, exprs, fresh, {"read_faults": faults} if faults else None))
                obs = next(it)
                run.check(X.undict(obs) == {"sid": s}, "C17.R5.corrupt_read", {"mode": tag, "sid": s, "got": obs})
                obs = next(it)
                run.check(X.undict(obs) == {"comment": None, "zzz": None}, "C17.R5.corrupt_read_attrs",
                          {"mode": tag, "sid": s, "got": obs})
                if use_all:
                    obs = next(it)
                    run.check(X.undict(obs) == {"sid": s}, "C17.R5.corrupt_read_all", {"mode": tag, "got": obs})
                    obs = next(it)
                    run.check(obs is None, "C17.R5.corrupt_get_attr", {"mode": tag, "got": obs})
                for y in others:
                    want = st.data(cfg, y)
                    obs = next(it)
                    dy = X.undict(obs)
                    run.check(dy is not None, "C17.R5.other_read_fails", {"mode": tag, "sid": y, "got": obs})
                    dy.pop("sid", None)
                    run.check(dy == want, "C17.R5.other_changed", {"mode": tag, "sid": y, "got": dy, "want": want})
                for q in searches:
                    obs = next(it)
                    got = X.uris(obs)
                    run.check(got is not None, "C17.R5.search_fails", {"mode": tag, "search": q, "got": obs})
                    run.check(set(got) == st.find_simple(cfg, q), "C17.R5.search_changed",
                              {"mode": tag, "search": q, "got": sorted(got)})
                    obs = next(it)
                    recs = X.items(obs)
                    run.check(recs is not None, "C17.R5.get_fails", {"mode": tag, "search": q, "got": obs})
            finally:
                if os.path.isdir(p):
                    shutil.rmtree(p)
                with open(p, "wb") as f:
                    f.write(content)

    def simplify(self, step, violation):
        d = violation.get("detail") or {}
        out = []
        if step.get("op") == "crashwrite" and "at" in d:
            s2 = dict(step)
            s2["points"] = [json.loads(d["at"])]
            s2["keep"] = None
            out.append(s2)
        if step.get("op") == "corrupt" and "mode" in d:
            s2 = dict(step)
            s2["modes"] = [json.loads(d["mode"])]
            out.append(s2)
        return out


PROFILE = CrashProfile()
