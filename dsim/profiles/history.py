"""C13 -- answers never depend on what was asked before: caches are invisible (DESIGN 5.1).

Oracle: every read-only call executed after a history gives the observation that the same call gives
in a fresh twin (pristine fork, default cache capacity, same disk, same listing order). Keyword and
positional spellings of one call agree. Across hash seeds: the orchestrator replays every run under
PYTHONHASHSEED=0 and compares the per-step observation log (post_batch).
"""
import hashlib
import json

from .. import x as X
from .base import gen_sid
from .storebase import StoreProfile, gen_search

# calls whose observation must be identical across hash seeds (the statement's list); helpers outside it
# are compared order-insensitively across seeds (their list order is not part of any documented contract)
ORDERED_TAGS = {"Sid", "SidPath", "path", "unfold", "match", "find", "find_one", "derived", "get_path_config", "get_finder"}


def _h(o):
    return hashlib.sha1(json.dumps(o, sort_keys=True).encode()).hexdigest()[:16]


def _unordered(o):
    """Order-insensitive canonical form of an observation (lists sorted recursively)."""
    if isinstance(o, dict):
        return {k: _unordered(v) for k, v in o.items()}
    if isinstance(o, list):
        return sorted((_unordered(v) for v in o), key=lambda j: json.dumps(j, sort_keys=True))
    return o


def build_alphabet(m, ents, rng=None, small=False):
    """The read-only call alphabet over a universe: list of {"tag", "e"} and spelling groups."""
    cfgs = m.configs
    files = [e for e in ents if m.is_leaf_type(m.natural_type(e))]
    folders = [e for e in ents if not m.is_leaf_type(m.natural_type(e))]
    f = files[0] if files else ents[0]
    f2 = files[-1] if files else ents[-1]
    d = folders[len(folders) // 2] if folders else ents[0]
    tn = m.natural_type(f)
    segs = f.split("/")
    star = "/".join(segs[:-2] + ["*", "*"])
    star2 = "/".join(segs[:-1] + ["*"])
    dstar = "/".join(segs[:2] + ["**"])
    alias = sorted(m.alias)[0] if m.alias else segs[-1]
    al = "/".join(segs[:3] + ["**", alias])
    comma = "/".join(segs[:-1] + [segs[-1] + "," + (sorted(set(m.alias.get(alias, [segs[-1]])))[0])])
    withq = f + "?" + m.by_name[tn].keys[-3] + "=" + segs[-3]
    keys = m.by_name[tn].keys
    A, G = [], []

    def add(tag, e):
        A.append({"tag": tag, "e": e})
        return e

    def group(tag, *es):
        for e in es:
            add(tag, e)
        G.append({"tag": tag, "es": list(es)})

    strings = [f, d, segs[0], star, dstar, al, comma, withq, tn + ":" + f, "foo/bar", "", f2,
               "/".join(segs[:4]) + "?" + keys[-1] + "=zz", star + "?" + keys[1] + "=" + segs[1]]
    if not small:
        strings += ["a:b:c", d + "/*", "*", "*/*/*", f + "/x", "/".join(segs[:2] + [">"])]
    for s in strings:
        group("Sid", X.call("Sid", s), X.call("Sid", sid=s))
    fields = dict(zip(keys, segs))
    rev = dict(reversed(list(fields.items())))
    add("Sid", X.call("Sid", fields=X.lit(fields)))
    add("Sid", X.call("Sid", fields=X.lit(rev)))
    q = "&".join("%s=%s" % kv for kv in fields.items())
    group("Sid", X.call("Sid", query=q), X.call("Sid", None, q))
    # paths: each file's path under each configuration, asked with each configuration
    paths = {}
    for c in cfgs:
        for s in (f, d):
            p = m.path_of_sid(s, c)
            if p:
                paths[(s, c)] = p
    for (s, c0), p in sorted(paths.items()):
        for c in [None] + cfgs:
            group("SidPath", X.call("Sid", path=p, config=c), X.call("Sid", None, None, None, p, c))
            group("path_to_dict", X.call("path_to_dict", p, None, c), X.call("path_to_dict", p, config=c),
                  X.call("path_to_dict", path=p, _type=None, config=c))
        add("path_to_dict", X.call("path_to_dict", p, m.natural_type(s), c0))
        G.append({"tag": "chain", "chain": True, "es": [["path_to_dict", X.call("path_to_dict", p, _type=m.natural_type(s), config=None)],
                                                       ["path_to_dict", X.call("path_to_dict", p, config=m.natural_type(s), _type=None)]]})
    add("SidPath", X.call("Sid", path="/nowhere/at/all.ma", config=cfgs[0]))
    # path() of a Sid that was built from a path under some configuration, and of the equal string-built Sid
    for (s, c0), p in sorted(paths.items()):
        add("path", X.meth(X.call("Sid", path=p, config=c0), "path"))
        add("path", X.meth(X.call("Sid", path=p, config=c0), "path", cfgs[0]))
    add("path", X.meth(X.sid(f), "path"))
    # the same call on equal Sids that were built in different ways (from the string, the uri, the fields, a path
    # under each configuration): one memo entry serves them all
    for s0 in (f, d):
        t0 = m.natural_type(s0)
        es = [X.meth(X.call("Sid", path=paths[(s0, c)], config=c), "path") for c in cfgs if (s0, c) in paths]
        es += [X.meth(X.sid(s0), "path"), X.meth(X.sid(t0 + ":" + s0), "path"),
               X.meth(X.call("Sid", fields=X.lit(m.fields(t0, s0))), "path")]
        G.append({"tag": "path", "es": es})
        G.append({"tag": "path", "es": list(reversed(es))})
    for s in (f, d, "foo/bar", star2, segs[0]):
        S = X.sid(s)
        add("path", X.meth(S, "path"))
        for c in cfgs:
            group("path", X.meth(S, "path", c), X.meth(S, "path", config=c))
    # unfolding, with every flag value and spelling
    for s in (star, dstar, al, comma, f, star + "?" + keys[-1] + "=" + alias):
        group("unfold", X.call("unfold_search", s), X.call("unfold_search", s, False, False),
              X.call("unfold_search", s, do_uniquify=False), X.call("unfold_search", search_sid=s),
              X.call("unfold_search", s, do_extrapolate=False))
        group("unfold", X.call("unfold_search", s, False, True), X.call("unfold_search", s, do_extrapolate=True),
              X.call("unfold_search", s, do_uniquify=False, do_extrapolate=True))
        group("unfold", X.call("unfold_search", s, True), X.call("unfold_search", s, do_uniquify=True),
              X.call("unfold_search", s, True, False))
        add("unfold", X.call("unfold_search", s, True, True))
        # the same two keywords written in either order, with the values swapped between the names
        ka = X.call("unfold_search", s, do_uniquify=True, do_extrapolate=False)
        kb = X.call("unfold_search", s, do_extrapolate=True, do_uniquify=False)
        add("unfold", ka)
        add("unfold", kb)
        G.append({"tag": "chain", "chain": True, "es": [["unfold", ka], ["unfold", kb]]})
        G.append({"tag": "chain", "chain": True, "es": [["unfold", kb], ["unfold", ka]]})
        add("unfold", X.call("unfold_search", X.sid(s)))
        add("simple_typing", X.call("simple_typing", s))
    for s in (f, star, "foo/bar", d):
        add("sid_to_dict", X.call("sid_to_dict", s))
        group("sid_to_dict", X.call("sid_to_dict", s, tn), X.call("sid_to_dict", s, _type=tn))
        add("sid_to_dicts", X.call("sid_to_dicts", s))
    for c in [None] + cfgs:
        add("get_path_config", X.call("get_path_config", c))
    for s in (star, star2, f, d + "/*"):
        add("get_finder", X.call("get_finder", s, None))
        add("get_finder", X.call("get_finder", X.sid(s), None))
    # match and pure derived calls
    for s, pat in ((f, star), (f, star2), (f, dstar), (d, star), (f, f), (f2, star2), (f, al)):
        add("match", X.meth(X.sid(s), "match", pat))
    for s in (f, d, star):
        S = X.sid(s)
        add("derived", X.attr(S, "parent"))
        add("derived", X.meth(S, "get_as", keys[2]))
        add("derived", X.meth(S, "get_with", **{keys[-1]: "*"}))
        add("derived", X.meth(S, "get_with", query=keys[0] + "=" + segs[0]))
        add("derived", X.meth(S, "copy"))
        add("derived", X.attr(S, "fields"))
    # find on unchanged data
    finders = [X.call("FindInPaths", c) for c in cfgs] + [X.call("FindInPaths"), X.call("FindInAll"),
                                                            X.call("FindInList", sorted(ents))]
    # ... and the same finders as long-lived instances the client keeps and re-uses
    finders += [X.held(X.call("FindInPaths", cfgs[0])), X.held(X.call("FindInAll")), X.held(X.call("FindInList", sorted(ents)))]
    vi = keys.index("version") if "version" in keys else max(0, len(segs) - 3)
    last = "/".join(segs[:vi] + [">"] + segs[vi + 1:])           # '>' at the version position
    const = "/".join(segs[:vi] + ["*"] + segs[vi + 1:vi + 2])    # a constant-backed level below a searched parent
    # a search unfolding into dozens of typed searches (12 alternatives x the leaf types below '**')
    wide = "/".join(segs[:3] + [",".join([segs[3]] + ["w%02d" % i for i in range(11)])] + ["**"]) if len(segs) > 4 else dstar
    add("unfold", X.call("unfold_search", wide))
    add("match", X.meth(X.sid(f), "match", wide))
    for F in finders:
        add("find", X.meth(F, "find", wide))
        for s in (star, star2, dstar, f, al, last, const):
            add("find", X.meth(F, "find", s))
        add("find_one", X.meth(F, "find_one", last))
        add("find", X.meth(F, "exists", last))
        add("find", X.meth(F, "exists", const))
        add("find_one", X.meth(F, "find_one", const))
        add("find_one", X.meth(F, "find_one", star2))
        add("find_one", X.meth(F, "find_one", dstar))
        add("find", X.meth(F, "find", star, as_sid=False))
        add("find", X.meth(F, "exists", f))
    # chains: one search string taken through several entry points in a row (a finder, the unfolding, match, another
    # finder): what one of them leaves behind must not change what the next one answers. Each call is compared with
    # the fresh twin only (no equality between the different calls is implied).
    P0, L0, A0 = X.call("FindInPaths", cfgs[0]), X.call("FindInList", sorted(ents)), X.call("FindInAll")
    for s in (star, dstar, wide, last, al):
        chain = [("find", X.meth(P0, "find", s)), ("unfold", X.call("unfold_search", s)), ("match", X.meth(X.sid(f), "match", s)),
                 ("find", X.meth(L0, "find", s)), ("find", X.meth(A0, "find", s)), ("find", X.meth(P0, "find", s))]
        G.append({"tag": "chain", "chain": True, "es": [[t, e] for t, e in chain]})
        G.append({"tag": "chain", "chain": True, "es": [[t, e] for t, e in reversed(chain)]})
    # a Sid built from a query that names its keys in ANOTHER order (equal uri, other field order), passed through Sid() and
    # the finders before / after the canonical Sid object of the same uri
    dt = m.natural_type(d)
    if dt:
        dq = "&".join("%s=%s" % kv for kv in reversed(list(m.fields(dt, d).items())))
        Q, Cn = X.call("Sid", query=dq), X.sid(d)
        for chain in ([("Sid", X.call("Sid", Q)), ("Sid", X.call("Sid", Cn)), ("derived", X.attr(X.call("Sid", Cn), "parent")),
                       ("find", X.meth(A0, "find", Cn)), ("find", X.meth(A0, "find", d))],
                      [("find", X.meth(L0, "find", Q)), ("derived", X.meth(X.call("Sid", Cn), "get_as", keys[1])),
                       ("find", X.meth(A0, "find", "/".join(d.split("/")[:-1] + ["*"])))],
                      [("match", X.meth(X.sid(f), "match", Q)), ("Sid", X.call("Sid", Cn)), ("find", X.meth(X.call("Sid", Cn), "exists"))]):
            G.append({"tag": "chain", "chain": True, "es": [[t, e] for t, e in chain]})
    # Getters walk the same unfolding as the Finders (and skip the types configured without one): a started or finished
    # get() must leave the later read-only calls on the same search alone
    shallow = ["/".join(segs[:k] + ["*"]) for k in (1, 2, 3)] + ["*", "/".join(segs[:1] + ["*", "*"])]
    GA, GP = X.call("GetFromAll"), X.call("GetFromPaths", cfgs[0])
    for s in shallow + [star2]:
        add("get", X.call("list", X.meth(GA, "get", s)))
        add("get", X.meth(GA, "get_one", s))
        add("unfold", X.call("unfold_search", s))
        for Gx in (GA, GP):
            chain = [("get", X.call("list", X.meth(Gx, "get", s))), ("unfold", X.call("unfold_search", s)),
                     ("find", X.meth(A0, "find", s)), ("find", X.meth(L0, "find", s)), ("match", X.meth(X.sid(d), "match", s))]
            G.append({"tag": "chain", "chain": True, "es": [[t, e] for t, e in chain]})
    add("get", X.call("list", X.meth(GP, "get", star2)))
    for s in (f, d):
        add("find", X.meth(X.sid(s), "exists"))
        add("find", X.meth(X.sid(s), "children"))
        add("find", X.meth(X.sid(s), "siblings"))
        add("find_one", X.meth(X.sid(s), "get_last", keys[-3]))
    # material for scripted episodes (see HistoryProfile.episode)
    ors = []
    mem = sorted(set(m.alias.get(alias, []))) if m.alias else []
    if mem:
        ors.append(("/".join(segs[:-1] + [alias]), ["/".join(segs[:-1] + [x]) for x in mem]))
        ors.append(("/".join(segs[:-1] + [",".join(mem[:3])]), ["/".join(segs[:-1] + [x]) for x in mem[:3]]))
    for j in range(1, len(segs) - 1):
        # a ',' list at a closed level, with '*' behind it: '.../model,rig/*'
        vals = [v for v in (m.vocab(tn, keys[j])[1] if m.vocab(tn, keys[j])[0] == "closed" else []) if v != segs[j]][:2]
        if vals:
            alts = [segs[j]] + vals
            ors.append(("/".join(segs[:j] + [",".join(alts)] + ["*"]), ["/".join(segs[:j] + [a] + ["*"]) for a in alts]))
    G.append({"tag": "episode_material", "material": True, "finders": finders, "f": f, "ors": ors,
              "partial": [last, last, last, const, const, wide, dstar, star2], "plain": [star, star2, dstar, f, last, const]})
    return A, G


class HistoryProfile(StoreProfile):
    name = "history"
    prop = "C13"
    rule = ("one case = one read-only call executed after a seeded history (<= 50 calls from the alphabet of all cached entry "
            "points x flags x keyword/positional spelling x configuration, with store mutations, partially consumed generators, "
            "restarts, cache floods) compared with the same call in a fresh twin process; plus keyword/positional groups; plus "
            "the whole run replayed under PYTHONHASHSEED=0; bounded sweep = every ordered pair of the base alphabet in a fresh "
            "epoch; non-trivial = the call was preceded by at least one other call in its epoch; distinct = distinct "
            "(previous call, call) pairs")

    def evaluations(self, stats, runs):
        return stats.get("compared_calls", 0)

    def params(self, rng, tier):
        p = super().params(rng, tier)
        p["n_entities"] = rng.randint(3, 7)
        p["n_ops"] = rng.randint(8, 30 if tier == "quick" else 50)
        p["capacity"] = rng.choice([4096, 4096, 64, 8, 2, 1])
        return p

    # ------------------------------------------------------------------ generation
    def alphabet(self, run):
        key = tuple(run.store.listing(run.m.default_config))
        if run.scratch.get("alpha_key") != key:
            A, G = build_alphabet(run.m, list(key))
            run.scratch["alpha"] = (A, G)
            run.scratch["alpha_key"] = key
        return run.scratch["alpha"]

    def gen(self, run, i):
        rng, m = run.rng, run.m
        if i == 0:
            run.scratch["uni"] = self.plan_universe(run, run.store.clone(), run.params["n_entities"], mirror=True, data_p=0.0,
                                                    leaf_p=1.0)   # the call alphabet is built around file Sids
        uni = run.scratch["uni"]
        if i < len(uni):
            return uni[i]
        if i - len(uni) >= run.params["n_ops"]:
            return None
        queue = run.scratch.get("queue") or []
        if queue:
            return queue.pop(0)
        ents = run.store.listing(m.default_config)
        if not any(m.is_leaf_type(m.natural_type(e)) for e in ents):
            return None   # (after minimisation) no file left to build the alphabet around
        A, G = self.alphabet(run)
        r = rng.random()
        carry = run.scratch.get("carry") or []
        if carry and rng.random() < 0.25:
            # a search asked before the last store mutation, asked again: the later call reflects the change
            a = rng.choice(carry)
            run.probes["search_repeated_after_mutation"] += 1
            return {"op": "call", "tag": a["tag"], "e": a["e"]}
        if r < 0.04:
            return {"op": "restart"}
        if r < 0.09:
            files = [e for e in run.store.listing(m.default_config) if m.is_leaf_type(m.natural_type(e))]
            if files and rng.random() < 0.6:
                # a new version next to the file most searches are built around
                f = files[0]
                tn = m.natural_type(f)
                ks = m.by_name[tn].keys
                if "version" in ks:
                    segs = f.split("/")
                    vals = self.vocab(run).values(tn, "version") or []
                    rng.shuffle(vals)
                    for v in vals:
                        segs[ks.index("version")] = v
                        cand = "/".join(segs)
                        if all(run.store.can_create(c, cand) == "ok" for c in m.configs):
                            return {"op": "mirror", "sid": cand, "data": None}
            extra = self.plan_universe(run, run.store.clone(), 1, mirror=True, data_p=0.0)
            if extra:
                return extra[0]
        if r < 0.14:
            finds = [a for a in A if a["tag"] == "find" and a["e"].get("$m") == "find"]
            return {"op": "take", "e": rng.choice(finds)["e"], "n": rng.randint(0, 2)}
        if r < 0.20:
            return {"op": "flood", "n": rng.choice([3, 10, 70, 140]), "salt": rng.randrange(1000)}
        if rng.random() < 0.12:
            ep = self.episode(run, G)
            if ep:
                run.scratch["queue"] = ep[1:]
                return ep[0]
        G = [g for g in G if not g.get("material")]
        if r < 0.40 and G:
            g = rng.choice(G)
            if g.get("chain"):
                return {"op": "chain", "es": g["es"]}
            es = list(g["es"])
            rng.shuffle(es)
            return {"op": "group", "tag": g["tag"], "es": es[: rng.randint(2, len(es))]}
        # stratified by kind of call first (the alphabet is dominated by find / unfold variants otherwise)
        tags = sorted({a["tag"] for a in A})
        tag = rng.choice(tags)
        a = rng.choice([x for x in A if x["tag"] == tag])
        return {"op": "call", "tag": a["tag"], "e": a["e"]}

    def episode(self, run, G):
        """Scripted mini-histories on ONE finder instance (held by the client two times out of three):
        (a) a search abandoned early (find_one / exists / a generator advanced 0..2 times), then other searches on the
            same instance; (b) a search abandoned early, then a new version created next to the file the searches are
            built around, then the same search again on the same instance (the later call reflects the change)."""
        rng, m = run.rng, run.m
        mat = [g for g in G if g.get("material")]
        if not mat:
            return None
        mat = mat[0]
        if mat.get("ors") and rng.random() < 0.3:
            # (c) in a new process: a search with alternatives (',' list / alias), then each alternative ALONE for the first
            # time -- through the unfolding, a finder and the Sid's own exists / children
            s_or, alts = rng.choice(mat["ors"])
            Fo = rng.choice(mat["finders"])
            steps = [{"op": "restart"},
                     {"op": "call", "tag": rng.choice(["find", "unfold"]), "e": None}]
            steps[1]["e"] = X.meth(Fo, "find", s_or) if steps[1]["tag"] == "find" else X.call("unfold_search", s_or)
            order = list(alts)
            rng.shuffle(order)
            for a in order[:3]:
                kind = rng.choice(["unfold", "find", "sid"])
                if kind == "unfold":
                    steps.append({"op": "call", "tag": "unfold", "e": X.call("unfold_search", a)})
                elif kind == "find":
                    steps.append({"op": "call", "tag": "find", "e": X.meth(rng.choice(mat["finders"]), "find", a)})
                else:
                    steps.append({"op": "call", "tag": "find", "e": X.meth(X.sid(a), "exists")})
                    steps.append({"op": "call", "tag": "find", "e": X.meth(X.sid(a.rsplit("/", 1)[0]), "children")})
            run.probes["episode_alternatives_then_each_alone"] += 1
            return steps
        held = [F for F in mat["finders"] if "$h" in F]
        F = rng.choice(held) if held and rng.random() < 0.66 else rng.choice(mat["finders"])
        s1 = rng.choice(mat["partial"])
        how = rng.choice(["take", "take", "find_one", "exists"])
        if how == "take":
            first = {"op": "take", "e": X.meth(F, "find", s1), "n": rng.choice([0, 1, 1, 1, 2]), "keep": "ep"}
        else:
            first = {"op": "call", "tag": "find_one" if how == "find_one" else "find", "e": X.meth(F, how, s1)}
        steps = [first]
        if rng.random() < 0.5:
            for s2 in rng.sample(mat["plain"], rng.randint(1, 2)):
                steps.append({"op": "call", "tag": "find", "e": X.meth(F, "find", s2)})
            if how == "take" and rng.random() < 0.9:
                # two live generators on one instance: another search (often the SAME one) is read while the first is
                # suspended, then the first is read to its end -- together it must have yielded what a fresh find yields
                if rng.random() < 0.5:
                    steps.append({"op": "call", "tag": "find", "e": X.meth(F, "find", s1)})
                steps.append({"op": "resume", "keep": "ep", "e": first["e"]})
            run.probes["episode_abandoned_then_other_searches"] += 1
        else:
            f = mat["f"]
            tn = m.natural_type(f)
            ks = m.by_name[tn].keys
            new = None
            if "version" in ks:
                segs = f.split("/")
                vals = list(self.vocab(run).values(tn, "version") or [])
                rng.shuffle(vals)
                for v in vals:
                    segs[ks.index("version")] = v
                    cand = "/".join(segs)
                    if all(run.store.can_create(c, cand) == "ok" for c in m.configs):
                        new = cand
                        break
            if not new:
                return None
            steps.append({"op": "mirror", "sid": new, "data": None})
            steps.append({"op": "call", "tag": "find", "e": X.meth(F, "find", s1)})
            steps.append({"op": "call", "tag": "find_one", "e": X.meth(F, "find_one", s1)})
            run.probes["episode_abandoned_mutated_asked_again"] += 1
        return steps

    # ------------------------------------------------------------------ execution
    def setup(self, run):
        super().setup(run)
        run.scratch["obslog"] = []
        run.scratch["twin"] = {}
        run.scratch["prev"] = None

    def twin(self, run, e):
        """Observation of the same call in a pristine forked process on the same disk (cached per disk state)."""
        key = (json.dumps(e, sort_keys=True), run.scratch.get("disk_version", 0))
        tw = run.scratch["twin"]
        if key not in tw:
            k = run.knobs()
            k["capacity"] = 4096
            from ..executor import Executor
            T = Executor(run.world.root, k)
            run.stats["forks"] += 1
            run.stats["twin_processes"] += 1
            try:
                tw[key] = T.obs(e)
            finally:
                T.close()
        return tw[key]

    def compare(self, run, tag, e, obs):
        run.stats["compared_calls"] += 1
        want = self.twin(run, e)
        prev = run.scratch.get("prev")
        run.check(obs == want, "C13.differs_from_fresh_process",
                  {"call": e, "tag": tag, "after": prev, "got": obs, "fresh": want,
                   "capacity": run.params.get("capacity")})
        ordered = tag in ORDERED_TAGS
        run.scratch["obslog"].append([tag, _h(obs) if ordered else _h(_unordered(obs))])
        if prev is not None:
            run.case_mark(_h(prev), _h(e))
        run.scratch["prev"] = e

    def apply(self, run, step):
        op = step["op"]
        if op in ("mirror", "create", "write"):
            asked = run.scratch.get("asked_finds") or []
            self.apply_common(run, step)
            run.scratch["disk_version"] = run.scratch.get("disk_version", 0) + 1
            run.scratch["carry"] = asked[-6:]
            return
        if op == "restart":
            run.start_epoch()
            run.scratch["prev"] = None
            return
        if op == "call":
            obs = run.do(step["e"])
            self.compare(run, step["tag"], step["e"], obs)
            if step["tag"] in ("find", "find_one"):
                run.scratch.setdefault("asked_finds", []).append({"tag": step["tag"], "e": step["e"]})
        elif op == "group":
            seen = []
            for e in step["es"]:
                obs = run.do(e)
                self.compare(run, step["tag"], e, obs)
                seen.append((e, obs))
            e0, o0 = seen[0]
            for e, o in seen[1:]:
                run.check(o == o0, "C13.keyword_vs_positional", {"a": e0, "b": e, "obs_a": o0, "obs_b": o, "tag": step["tag"]})
        elif op == "chain":
            for tag, e in step["es"]:
                obs = run.do(e)
                self.compare(run, tag, e, obs)
            run.probes["chains"] += 1
        elif op == "take":
            keep = step.get("keep") or "gen%d" % (len(run.steps) % 3)
            got = run.do(X.take(step["e"], step["n"], keep=keep))
            run.scratch.setdefault("kept", {})[keep] = (json.dumps(step["e"], sort_keys=True), got,
                                                         run.scratch.get("disk_version", 0), len(run.world_epochs) if hasattr(run, "world_epochs") else run.stats.get("epochs", 0))
            run.probes["partially_consumed_generators"] += 1
        elif op == "resume":
            kept = (run.scratch.get("kept") or {}).get(step["keep"])
            if not kept or kept[0] != json.dumps(step["e"], sort_keys=True) or kept[2] != run.scratch.get("disk_version", 0) \
                    or kept[3] != run.stats.get("epochs", 0) or not isinstance(kept[1], list):
                return      # (restarted, data changed or nothing kept: the suspended generator is not comparable)
            rest = run.do(X.call("list", X.ref(step["keep"])))
            whole = self.twin(run, X.call("list", step["e"]))
            if isinstance(rest, list) and isinstance(whole, list):
                run.stats["compared_calls"] += 1
                run.check(kept[1] + rest == whole, "C13.suspended_generator_lost_results",
                          {"call": step["e"], "taken_first": kept[1], "rest_after_other_searches": rest, "fresh": whole})
                run.probes["suspended_generator_resumed"] += 1
        elif op == "flood":
            # more distinct calls than the caches can hold (capacity knob) / than resolva's lru(128) holds
            es = [X.call("Sid", "hamlet/a/char/n%d_%d" % (step["salt"], j)) for j in range(step["n"])]
            es += [X.call("unfold_search", "hamlet/a/*/n%d_%d/*" % (step["salt"], j)) for j in range(min(step["n"], 20))]
            run.do(X.seq(*es))
            if step["n"] >= run.params.get("capacity", 4096):
                run.probes["flood_exceeds_capacity"] += 1
            if step["n"] > 128:
                run.probes["flood_exceeds_resolva_lru"] += 1
        else:
            raise ValueError(op)

    def finish(self, run):
        pass

    # ------------------------------------------------------------------ bounded sweep: every ordered pair
    def sweep(self, model, tier):
        import random
        from .base import Vocab, PLAIN_NAMES, file_types
        rng = random.Random(13)
        vocab = Vocab(model, names=PLAIN_NAMES)
        cfg = model.default_config
        ft = sorted(file_types(model, vocab, cfg))
        ents, uni = [], []
        pool = {}
        for t in (ft[0], ft[-1], ft[0]):
            s = None
            while s is None or s in ents:
                s = gen_sid(rng, model, vocab, t, pool, reuse=0.8)
            ents.append(s)
            uni.append({"op": "mirror", "sid": s, "data": None})
        from ..model import Store
        st = Store(model)
        for s in ents:
            for c in model.configs:
                st.create(c, s)
        A, G = build_alphabet(model, st.listing(cfg), small=True)
        G = [g for g in G if not g.get("material")]
        base = [a for i, a in enumerate(A) if i % (3 if tier == "thorough" else 6) == 0]
        # one run per first call: [universe, (restart, a, b) for every b]
        for a in base:
            steps = list(uni)
            for b in base:
                steps += [{"op": "restart"}, {"op": "call", "tag": a["tag"], "e": a["e"]},
                          {"op": "call", "tag": b["tag"], "e": b["e"]}]
            yield {"params": {"listing": "sorted", "capacity": 4096, "pairs_with": len(base)}, "steps": steps}

    # ------------------------------------------------------------------ across hash seeds
    def post_batch(self, pool, results, tier):
        """Replay every clean run under PYTHONHASHSEED=0; the per-step observation logs must be identical."""
        from .. import orchestrator as O
        todo = [r for r in results if r.get("obslog") is not None and not r.get("violations")
                and str(r.get("hash_seed")) != "0" and not r.get("harness_error")]
        todo = todo[:60] if tier == "quick" else todo[:600]
        replays, by_seed = {}, {}
        for r in todo:
            replays[r["seed"]] = {"params": r["params"], "steps": r["steps"], "force_hash": 0}
            by_seed[r["seed"]] = r
        out = O.batch(pool, self.name, list(replays), tier, 600, stop_on_violation=False, replays=replays)
        bad = []
        n = 0
        for r0 in out:
            if r0.get("harness_error") or r0.get("obslog") is None:
                continue
            r = by_seed[r0["seed"]]
            n += 1
            if r0["obslog"] != r["obslog"] or r0.get("violations"):
                idx = next((i for i, (a, b) in enumerate(zip(r["obslog"], r0["obslog"])) if a != b), None)
                v = dict(r)
                v["violations"] = [{"oracle": "C13.depends_on_hash_seed", "step": idx,
                                    "detail": {"hash_seed_a": r["hash_seed"], "hash_seed_b": "0", "first_differing_call": idx,
                                               "tag": r["obslog"][idx][0] if idx is not None else None}}]
                bad.append(v)
        return {"hash_seed_replays": n, "hash_seed_mismatches": len(bad), "violations": bad[:3]}


PROFILE = HistoryProfile()
