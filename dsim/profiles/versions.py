"""C18 -- get_last, get_next and get_new implement a gap-free version workflow (DESIGN 5.10)."""
import re

from .. import x as X
from .base import gen_sid
from .storebase import StoreProfile

VERSION_KEY = "version"


class VersionsProfile(StoreProfile):
    name = "versions"
    prop = "C18"
    rule = ("one case = one get_last / get_next / get_new('version') call on a task / version / state / file Sid (concrete, or "
            "with version '*' / '>') over a reached tree with an arbitrary version set, or one publish step "
            "create(get_new('version')) of a chain (<= 8 steps, restarts in between); distinct = distinct (call, Sid, existing "
            "version set)")

    def evaluations(self, stats, runs):
        return stats.get("version_cases", 0)

    def params(self, rng, tier):
        p = super().params(rng, tier)
        p["crowd"] = rng.random() < 0.1
        p["n_entities"] = rng.randint(1, 8 if tier == "quick" else 14)
        p["n_ops"] = rng.randint(6, 16 if tier == "quick" else 36)
        p["capacity"] = rng.choice([4096, 4096, 64, 8])
        return p

    # ------------------------------------------------------------------ helpers
    def vkey_index(self, run, tn):
        keys = run.m.by_name[tn].keys
        return keys.index(VERSION_KEY) if VERSION_KEY in keys else None

    def version_format(self, run):
        for t in run.m.types:
            if VERSION_KEY in t.keys:
                v = run.m.vocab(t.name, VERSION_KEY)
                if v[0] == "digits":
                    return v[1], v[2]
        return None

    def existing_versions(self, run, sid):
        """(index, {version: uri}) of existing siblings of `sid` differing only by version (FindInAll existence model).
        For a Sid without version key: its children at the version level."""
        m, st = run.m, run.store
        tn = m.natural_type(sid)
        segs = sid.split("/")
        i = self.vkey_index(run, tn)
        if i is None:
            # deeper type of the same basetype owning 'version' right below
            star = sid + "/*"
            i = len(segs)
        else:
            star = "/".join(segs[:i] + ["*"] + segs[i + 1:])
        last_seg = star.split("/")[-1]
        if last_seg in m.alias and i < len(segs) - 1:
            # an extension alias in the Sid: the siblings are those of every member extension; per version the answer is
            # the one whose remaining segments (state, extension) are greatest (C09's reading of '>')
            found = []
            for ext in m.alias[last_seg]:
                f = st.find_all_simple("/".join(star.split("/")[:-1] + [ext]))
                if f is None:
                    return i, None
                found += f
        else:
            found = st.find_all_simple(star)
        if found is None:
            return i, None
        out = {}
        for u in found:
            s = u.split(":", 1)[1]
            v = s.split("/")[i]
            if v not in out or s.split("/")[i:] > out[v].split(":", 1)[1].split("/")[i:]:
                out[v] = u
        return i, out

    def successor(self, run, version):
        pre, width = self.version_format(run)
        n = int(version[len(pre):]) + 1
        v = pre + str(n).zfill(width)
        return v if len(str(n)) <= width else None

    # ------------------------------------------------------------------ generation
    def gen(self, run, i):
        rng, m = run.rng, run.m
        if i == 0:
            run.scratch["uni"] = self.plan_universe(run, run.store.clone(), run.params["n_entities"], mirror=False,
                                                    cfgs=[m.default_config], data_p=0.0)
            if run.params.get("crowd"):
                # many versions (beyond 32 / 48 / 64) of one task, some with files
                shadow = run.store.clone()
                for st in run.scratch["uni"]:
                    if st["op"] == "create":
                        shadow.create(st["cfg"], st["sid"], None)
                files = [e for e in shadow.listing(m.default_config) if m.is_leaf_type(m.natural_type(e))
                         and VERSION_KEY in m.by_name[m.natural_type(e)].keys]
                if files:
                    f = rng.choice(files)
                    tn = m.natural_type(f)
                    k = m.by_name[tn].keys.index(VERSION_KEY)
                    vals = self.vocab(run).values(tn, VERSION_KEY)
                    for v in rng.sample(vals, min(len(vals), rng.choice([34, 50, 66]))):
                        segs = f.split("/")
                        segs[k] = v
                        s2 = "/".join(segs) if rng.random() < 0.5 else "/".join(segs[:k + 1])
                        if shadow.can_create(m.default_config, s2) == "ok":
                            shadow.create(m.default_config, s2, None)
                            run.scratch["uni"].append({"op": "create", "cfg": m.default_config, "sid": s2, "data": None})
        uni = run.scratch["uni"]
        if i < len(uni):
            return uni[i]
        if i - len(uni) >= run.params["n_ops"]:
            return None
        queue = run.scratch.setdefault("queue", [])
        if queue:
            return queue.pop(0)
        ents = run.store.listing(m.default_config)
        if not ents:
            return None
        r = rng.random()
        if rng.random() < 0.06:
            ep = self.alias_episode(run, ents)
            if ep:
                queue.extend(ep[1:])
                return ep[0]
        if r < 0.07:
            return {"op": "restart"}
        if r < 0.2:
            # another version next to an existing entity (sparse sets, v000 / v998 / v999 included)
            base = rng.choice(ents)
            tn = m.natural_type(base)
            k = self.vkey_index(run, tn)
            if k is not None:
                vals = self.vocab(run).values(tn, VERSION_KEY)
                segs = base.split("/")
                segs[k] = rng.choice(vals)
                s = "/".join(segs)
                if run.store.can_create(m.default_config, s) == "ok":
                    return {"op": "create", "cfg": m.default_config, "sid": s, "data": None}
        base = rng.choice(ents)
        segs = base.split("/")
        tn = m.natural_type(base)
        k = self.vkey_index(run, tn)
        # task / version / state / file level of this entity's branch (the statement's family)
        if k is None:
            below = [t2 for t2 in m.types if t2.n == len(segs) + 1 and t2.keys[-1] == VERSION_KEY and
                     t2.keys[:-1] == m.by_name[tn].keys]
            if not below:
                return {"op": "restart"}
            k = len(segs)
        depth = rng.randint(k, len(segs))
        sid = "/".join(segs[:depth])
        # one level below the deepest path-backed level: the constant-backed state level
        if depth == len(segs) and rng.random() < 0.3:
            deeper = [t2 for t2 in m.types if t2.n == depth + 1 and t2.keys[:depth] == m.by_name[tn].keys and
                      m.basetype(t2.name) == m.basetype(tn)]
            if deeper:
                t2 = deeper[0]
                vals = self.vocab(run).values(t2.name, t2.keys[-1]) or []
                if vals:
                    sid = sid + "/" + rng.choice(vals)
        # the same file with ANOTHER extension of its type, of which no version exists (its neighbours' versions are not its own)
        if depth == len(segs) and m.is_leaf_type(tn) and rng.random() < 0.1:
            exts = [e for e in (self.vocab(run).values(tn, m.by_name[tn].keys[-1]) or []) if e != segs[-1] and e not in m.alias]
            if exts:
                cand = "/".join(segs[:-1] + [rng.choice(exts)])
                if m.natural_type(cand) == tn:
                    sid = cand
                    run.probes["same_file_other_extension"] += 1
        # a file Sid spelled with an extension alias ('maya' for ma / mb): the version calls expand it
        if depth == len(segs) and rng.random() < 0.25:
            names = sorted(a for a, members in m.alias.items() if sid.split("/")[-1] in members)
            if names:
                sid = "/".join(sid.split("/")[:-1] + [rng.choice(names)])
                if not m.natural_type(sid):
                    sid = "/".join(segs[:depth])
        tn2 = m.natural_type(sid)
        if not tn2:
            return {"op": "restart"}
        k2 = self.vkey_index(run, tn2)
        if k2 is not None and rng.random() < 0.3:
            vs = sid.split("/")
            vs[k2] = rng.choice(["*", ">"] + (self.vocab(run).values(tn2, VERSION_KEY) or []))
            sid = "/".join(vs)
        if k2 is not None and k2 > 0 and rng.random() < 0.12:
            # a branch WITHOUT any version yet (another value at the level above the version): first-version behaviour of
            # '*' / '>' / concrete / absent version
            vs = sid.split("/")
            vals = [v for v in (self.vocab(run).values(tn2, m.by_name[tn2].keys[k2 - 1]) or []) if v != vs[k2 - 1]]
            if vals:
                vs[k2 - 1] = rng.choice(vals)
                vs[k2] = rng.choice(["*", ">", vs[k2]])
                cand = "/".join(vs) if rng.random() < 0.7 else "/".join(vs[:k2])
                if m.natural_type(cand) == (tn2 if cand.count("/") == sid.count("/") else m.natural_type(cand)) and m.natural_type(cand):
                    sid = cand
        if r < 0.45:
            return {"op": "publish", "sid": sid}
        return {"op": "ask", "sid": sid, "what": rng.choice(["get_last", "get_next", "get_new"]), "kw": rng.random() < 0.4}

    def alias_episode(self, run, ents):
        """A file spelled with an extension alias whose member extensions exist at DIFFERENT versions: the greatest version
        only with the member that sorts first, a smaller one with a member that sorts later; then the three calls."""
        rng, m = run.rng, run.m
        files = [e for e in ents if m.is_leaf_type(m.natural_type(e)) and self.vkey_index(run, m.natural_type(e)) is not None]
        rng.shuffle(files)
        for f in files[:6]:
            segs = f.split("/")
            names = sorted(a for a, mem in m.alias.items() if segs[-1] in mem and len(mem) > 1)
            if not names:
                continue
            a = rng.choice(names)
            mem = sorted(m.alias[a])
            lo_ext, hi_ext = mem[-1], mem[0]
            tn = m.natural_type(f)
            k = self.vkey_index(run, tn)
            vals = sorted(self.vocab(run).values(tn, VERSION_KEY) or [])
            if len(vals) < 2:
                continue
            i, existing = self.existing_versions(run, "/".join(segs[:-1] + [a]))
            top = max(existing) if existing else vals[0]
            higher = [v for v in vals if v > top]
            if len(higher) < 2:
                continue
            v_lo, v_hi = higher[0], higher[-1] if rng.random() < 0.5 else higher[1]
            steps = []
            for v, ext in ((v_lo, lo_ext), (v_hi, hi_ext)):
                s2 = "/".join(segs[:k] + [v] + segs[k + 1:-1] + [ext])
                if m.natural_type(s2) and run.store.can_create(m.default_config, s2) == "ok":
                    steps.append({"op": "create", "cfg": m.default_config, "sid": s2, "data": None})
            if len(steps) < 2:
                continue
            for ver in (segs[k], "*", ">"):
                sid = "/".join(segs[:k] + [ver] + segs[k + 1:-1] + [a])
                if m.natural_type(sid):
                    for what in ("get_last", "get_new", "get_next"):
                        steps.append({"op": "ask", "sid": sid, "what": what, "kw": False})
            asks = steps[2:]
            rng.shuffle(asks)
            steps = steps[:2] + asks[:4]
            run.probes["alias_members_at_different_versions"] += 1
            return steps
        return None

    # ------------------------------------------------------------------ execution
    def apply(self, run, step):
        if self.apply_common(run, step):
            return
        if step["op"] == "ask":
            self.check_ask(run, step["sid"], step["what"], kw=bool(step.get("kw")))
        elif step["op"] == "publish":
            self.publish(run, step["sid"])
        else:
            raise ValueError(step["op"])

    def alias_norm(self, run, sid, string):
        """For a Sid spelled with an extension alias the statement's 'every other field unchanged' cannot be literal
        (an existing sibling has a member extension, never the alias): a member of that alias counts as the alias."""
        a = sid.split("/")[-1]
        g = string.split("/")
        if a in run.m.alias and len(g) == len(sid.split("/")) and g[-1] in run.m.alias[a]:
            g[-1] = a
        return "/".join(g)

    def others_unchanged(self, run, sid, got, i, what):
        segs = sid.split("/")
        g = self.alias_norm(run, sid, got.string).split("/")
        base = segs[:i] + segs[i + 1:]
        res = g[:i] + g[i + 1:]
        run.check(res[: len(base)] == base and len(g) == max(len(segs), i + 1), "C18.other_fields_changed",
                  {"call": what, "sid": sid, "got": got.uri})

    def check_ask(self, run, sid, what, kw=False):
        m = run.m
        run.stats["version_cases"] += 1
        # the key given positionally or by keyword (both are the documented signature)
        obs = run.do(X.meth(X.sid(sid), what, key=VERSION_KEY) if kw else X.meth(X.sid(sid), what, VERSION_KEY))
        run.check(isinstance(obs, dict) and "~S" in obs, "C18.raises_or_not_a_sid", {"call": what, "sid": sid, "got": obs})
        got = X.SidObs(obs)
        # never an invalid (untyped, non-empty) Sid
        run.check(got.type != "" or got.string == "", "C18.invalid_sid_returned", {"call": what, "sid": sid, "got": got.uri})
        tn = m.natural_type(sid)
        i, existing = self.existing_versions(run, sid)
        if existing is None:
            run.stats["not_modelled"] += 1
            return
        has_version = self.vkey_index(run, tn) is not None
        cur = sid.split("/")[i] if has_version else None
        last = max(existing) if existing else None
        det = {"call": what, "sid": sid, "existing": sorted(existing), "got": got.uri}
        if not existing and cur in ("*", ">"):
            run.probes["search_version_on_empty_branch"] += 1
        if what == "get_last":
            if last is None:
                run.check(got.uri == "", "C18.get_last_should_be_empty", det)
            else:
                run.check(got.uri == existing[last], "C18.get_last", dict(det, want=existing[last]))
        elif what == "get_next":
            if cur in ("*", ">"):
                base = last or self.zero(run)
            elif cur is None:
                base = self.zero(run)
            else:
                base = cur
            nxt = self.successor(run, base)
            self.expect_version(run, sid, i, nxt, got, det, "C18.get_next")
        elif what == "get_new":
            if last is not None:
                nxt = self.successor(run, last)
                self.expect_version(run, sid, i, nxt, got, det, "C18.get_new")
            else:
                # no sibling exists: both readings are accepted (first version / own successor)
                first = self.successor(run, self.zero(run))
                own = self.successor(run, cur) if cur not in (None, "*", ">") else first
                ok = False
                for cand in (first, own):
                    if cand is None and got.uri == "":
                        ok = True
                    if cand is not None and got.string.split("/")[i:i + 1] == [cand]:
                        ok = True
                run.check(ok, "C18.get_new_without_siblings", dict(det, accepted=[first, own]))
            if got.uri:
                run.check(got.string.split("/")[i] not in existing, "C18.get_new_exists_already", det)
        if got.uri:
            self.others_unchanged(run, sid, got, i, what)
        run.case_mark(what, sid, sorted(existing))
        if sid.split("/")[-1] in m.alias:
            run.probes["version_call_on_alias_sid"] += 1

    def zero(self, run):
        pre, width = self.version_format(run)
        return pre + "0" * width

    def expect_version(self, run, sid, i, nxt, got, det, oracle):
        if nxt is None:
            run.check(got.uri == "", oracle + "_beyond_last_representable", det)
            run.probes["beyond_last_representable"] += 1
            return
        segs = sid.split("/")
        want = segs[:i] + [nxt] + segs[i + 1:]
        run.check(self.alias_norm(run, sid, got.string) == "/".join(want), oracle, dict(det, want="/".join(want)))

    def publish(self, run, sid):
        """create(get_new('version')): strictly increasing, never reused versions."""
        m, st = run.m, run.store
        run.stats["version_cases"] += 1
        run.stats["publishes"] += 1
        i, existing = self.existing_versions(run, sid)
        obs = run.do(X.meth(X.sid(sid), "get_new", VERSION_KEY))
        run.check(isinstance(obs, dict) and "~S" in obs, "C18.raises_or_not_a_sid", {"call": "get_new", "sid": sid, "got": obs})
        new = X.SidObs(obs)
        run.check(new.type != "" or new.string == "", "C18.invalid_sid_returned", {"call": "get_new", "sid": sid, "got": new.uri})
        if new.uri == "" or existing is None:
            return
        v = new.string.split("/")[i]
        det = {"sid": sid, "new": new.uri, "existing": sorted(existing)}
        run.check(v not in existing, "C18.publish_reuses_version", det)
        run.check(all(v > e for e in existing), "C18.publish_not_increasing", det)
        if "*" in new.string or ">" in new.string or new.string.split("/")[-1] in m.alias:
            run.stats["publish_of_search_skipped"] += 1
            return
        tn = m.natural_type(new.string)
        if not tn or not m.has_path(tn, m.default_config):
            run.stats["publish_without_path"] += 1
            return
        kind = st.can_create(m.default_config, new.string)
        o2 = run.do(X.meth(X.call("WriteToPaths"), "create", new.string))
        if kind == "ok":
            run.check(o2 is True, "C18.publish_create_fails", dict(det, got=o2))
            st.create(m.default_config, new.string)
            run.probes["published"] += 1
            run.case_mark("publish", sid, sorted(existing))


PROFILE = VersionsProfile()
