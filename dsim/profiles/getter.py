"""C16 -- a Getter returns one record per Sid its Finder finds, in the same order (DESIGN 5.9)."""
import json

from .. import x as X
from .base import gen_sid, gen_data, ATTR_KEYS
from .storebase import StoreProfile, gen_search
from .finders import answer

ENCODERS = ["enc_str", "enc_uri", "enc_none"]


class GetterProfile(StoreProfile):
    name = "getter"
    prop = "C16"
    rule = ("one case = one Getter.get(search, attributes, sid_encode) call (GetFromPaths per configuration, GetFromAll) "
            "compared record by record with the finder's find(search) and the model's attribute data on a reached store state, "
            "plus get_one / get_data / get_attr on its first Sid; non-trivial = at least one record; distinct = distinct "
            "(party, search, attributes, encoder, answer)")

    def evaluations(self, stats, runs):
        return stats.get("get_cases", 0)

    def params(self, rng, tier):
        p = super().params(rng, tier)
        p["crowd"] = rng.random() < 0.1
        p["n_entities"] = rng.randint(2, 9 if tier == "quick" else 14)
        p["n_ops"] = rng.randint(6, 14 if tier == "quick" else 36)
        p["capacity"] = rng.choice([4096, 4096, 64, 8])
        # a small share of the runs also asks ',' lists whose alternatives OVERLAP (a '*' next to a literal): legal searches
        # of the C07 family ("comma lists"), kept to few runs because GetFromAll has an open finding there (F2)
        p["overlap_lists"] = rng.random() < 0.06
        return p

    def gen(self, run, i):
        rng, m = run.rng, run.m
        if i == 0:
            run.scratch["uni"] = self.plan_universe(run, run.store.clone(), run.params["n_entities"], mirror=rng.random() < 0.6,
                                                    data_p=0.6)
        uni = run.scratch["uni"]
        if i < len(uni):
            return uni[i]
        if i - len(uni) >= run.params["n_ops"]:
            return None
        cfg = rng.choice(m.configs)
        ents = run.store.listing(cfg) or run.store.listing(m.default_config)
        if not ents:
            return None
        q = run.scratch.setdefault("queue", [])
        if q:
            return q.pop(0)
        if i - len(uni) == run.params["n_ops"] - 3 and rng.random() < 0.35:
            # the last steps of the run: one sidecar replaced by bytes that are not JSON text at all (another tool, another
            # encoding), then searches over it -- its record is just the Sid, the others are untouched
            have = [e for e in run.store.listing(cfg) if run.store.data(cfg, e) and not run.store.shares_key(cfg, e)]
            if have:
                e = rng.choice(have)
                kind = rng.choice(["latin1", "utf16_bom", "binary", "nul"])
                segs = e.split("/")
                q.append({"op": "get", "party": rng.choice(["GP:" + cfg, "GA"]), "s": "/".join(segs[:-1] + ["*"]), "attributes": None,
                          "enc": "enc_str", "held": False})
                q.append({"op": "get", "party": "GP:" + cfg, "s": e, "attributes": ["comment", "sid"], "enc": "enc_uri", "held": False})
                return {"op": "garbage_sidecar", "cfg": cfg, "sid": e, "kind": kind}
        r = rng.random()
        if r < 0.05:
            return {"op": "restart"}
        if r < 0.12:
            extra = self.plan_universe(run, run.store.clone(), 1, mirror=True, data_p=0.7)
            if extra:
                return extra[0]
        if r < 0.30:
            s = rng.choice(ents)
            how = rng.choice(["set", "update"])
            if rng.random() < 0.4:
                # an update that keeps the sidecar's byte size (0 <-> 1, "x" <-> "y"), right after it was read
                cur = run.store.data(cfg, s) or {}
                flips = {k: ({0: 1, 1: 0, "x": "y", "y": "x"}[v]) for k, v in cur.items()
                         if not isinstance(v, bool) and v in (0, 1, "x", "y")}
                data = dict(list(flips.items())[:1]) if flips else {"frames": 0}
                run.probes["same_size_updates"] += 1 if flips else 0
                g = {"op": "get", "party": "GP:" + cfg, "s": s, "attributes": None, "enc": "enc_str"}
                if not flips:
                    # seed value, read, flip, read again
                    run.scratch.setdefault("queue", []).extend(
                        [dict(g), {"op": "write", "cfg": cfg, "sid": s, "how": how, "data": {"frames": 1}}, dict(g)])
                    run.probes["same_size_updates"] += 1
                    return {"op": "write", "cfg": cfg, "sid": s, "how": how, "data": data}
                run.scratch.setdefault("queue", []).extend([{"op": "write", "cfg": cfg, "sid": s, "how": how, "data": data}, dict(g)])
                return dict(g)
            return {"op": "write", "cfg": cfg, "sid": s, "how": how, "data": gen_data(rng, nmax=2, big=rng.random() < 0.05)}
        base = rng.choice(ents)
        if rng.random() < 0.1:
            base = gen_sid(rng, m, self.vocab(run), m.natural_type(base), run.scratch.get("value_pool"), reuse=0.7) or base
        s, feats = gen_search(rng, m, self.vocab(run), base, simple=rng.random() < 0.4, allow_last=rng.random() < 0.15)
        if "comma_overlap" in feats:
            # the shared search generator's own overlapping lists: asked here only in the runs set apart for them (F2),
            # with records that identify their Sid
            if run.params.get("overlap_lists"):
                return {"op": "get", "party": rng.choice(["GP:" + cfg, "GA", "GA"]), "s": s, "attributes": None,
                        "enc": rng.choice(["enc_str", "enc_uri"]), "held": rng.random() < 0.4, "overlap": True}
            head, _, qs = s.partition("?")
            head = "/".join(",".join(a for a in seg.split(",") if a != "*") if "," in seg else seg for seg in head.split("/"))
            s = head + ("?" + qs if qs else "")
        attrs = None
        if rng.random() < 0.5:
            attrs = rng.sample(ATTR_KEYS + ["missing_key", "sid"], rng.randint(1, 3))
        if run.params.get("overlap_lists") and rng.random() < 0.5:
            segs = s.split("?")[0].split("/")
            lits = [k for k, x in enumerate(segs) if k > 0 and x not in ("*", ">", "**") and "," not in x and x not in m.alias]
            if lits and "**" not in segs:
                k = rng.choice(lits)
                segs[k] = rng.choice(["*,%s", "%s,*"]) % segs[k]
                s = "/".join(segs) + ("?" + s.split("?", 1)[1] if "?" in s else "")
                return {"op": "get", "party": rng.choice(["GP:" + cfg, "GA", "GA"]), "s": s, "attributes": None,
                        "enc": rng.choice(["enc_str", "enc_uri"]), "held": rng.random() < 0.4, "overlap": True}
        tnb = m.natural_type(base)
        if tnb and m.is_leaf_type(tnb) and rng.random() < 0.07:
            # three files next to each other whose extensions, in string order, belong to types A, B, A; then one
            # ',' list over the three through GetFromAll and GetFromPaths (records in the Finder's order)
            t = m.by_name[tnb]
            pairs = []
            for t2 in m.types:
                if t2.n == t.n and t2.keys[:-1] == t.keys[:-1] and m.is_leaf_type(t2.name):
                    pairs += [(v, t2.name) for v in (self.vocab(run).values(t2.name, t2.keys[-1]) or []) if v not in m.alias]
            pairs.sort()
            tri = [(a, b2, c) for ia, a in enumerate(pairs) for ib, b2 in enumerate(pairs[ia + 1:], ia + 1)
                   for c in pairs[ib + 1:] if a[1] == c[1] != b2[1]]
            if tri:
                a, b2, c = rng.choice(tri)
                stem = base.rsplit("/", 1)[0]
                steps = []
                for ext, _tn in (a, b2, c):
                    sfile = stem + "/" + ext
                    if m.natural_type(sfile) and all(run.store.can_create(cc, sfile) == "ok" for cc in m.configs):
                        steps.append({"op": "mirror", "sid": sfile, "data": gen_data(rng, nmax=1) if rng.random() < 0.5 else None})
                exts = [a[0], b2[0], c[0]]
                rng.shuffle(exts)
                sq = stem + "/" + ",".join(exts)
                for party in ("GA", "GP:" + cfg):
                    steps.append({"op": "get", "party": party, "s": sq, "attributes": None, "enc": "enc_uri", "held": False})
                run.probes["interleaved_type_lists"] += 1
                q.extend(steps[1:])
                return steps[0]
        if len(base.split("/")) >= 2 and rng.random() < 0.08:
            # a shallow '>' search through GetFromAll whose results span several types (levels with and without a
            # configured Getter): 'hamlet/*/>' ...
            segs = base.split("/")
            d = rng.randint(2, min(4, len(segs)))
            segs = segs[:d]
            for j in range(1, d - 1):
                if rng.random() < 0.7:
                    segs[j] = "*"
            segs[d - 1] = ">"
            run.probes["shallow_last_through_getfromall"] += 1
            return {"op": "get", "party": "GA", "s": "/".join(segs), "attributes": attrs, "enc": rng.choice(ENCODERS),
                    "held": rng.random() < 0.4}
        party = rng.choice(["GP:" + cfg, "GP:" + cfg, "GA"])
        return {"op": "get", "party": party, "s": s, "attributes": attrs, "enc": rng.choice(ENCODERS), "held": rng.random() < 0.4}

    def apply(self, run, step):
        if self.apply_common(run, step):
            return
        if step["op"] == "garbage_sidecar":
            from .crash import GARBAGE
            import os
            st = run.store
            cfg, e = step["cfg"], step["sid"]
            if not st.exists(cfg, e) or st.shares_key(cfg, e):
                return
            p = run.world.real(run.m.sidecar_path(st.paths[cfg][e]))
            if os.path.isfile(p):
                with open(p, "wb") as f:
                    f.write(GARBAGE[step["kind"]])
                st.attrs[cfg][st.key_of(cfg, e)] = {}       # unreadable: reads return just the 'sid' entry
                st.own[cfg][e] = {}
                run.fired["sidecar_garbage:" + step["kind"]] += 1
            return
        if step["op"] != "get":
            raise ValueError(step["op"])
        m, st = run.m, run.store
        run.stats["get_cases"] += 1
        party, s, attrs, enc = step["party"], step["s"], step.get("attributes"), step["enc"]
        if party == "GA":
            G, F, cfg = X.call("GetFromAll"), X.call("FindInAll"), m.default_config
        else:
            cfg = party.split(":", 1)[1]
            G, F = X.call("GetFromPaths", cfg), X.call("FindInPaths", cfg)
        if step.get("held"):
            G = X.held(G)      # the Getter instance the client keeps across calls
        E = X.call(enc)
        kw = {"sid_encode": E}
        if attrs is not None:
            kw["attributes"] = attrs
        obs = run.do(X.seq(X.meth(F, "find", s), X.meth(G, "get", s, **kw), X.meth(G, "get_one", s, **kw)))["~seq"]
        found = answer(obs[0])
        recs = X.items(obs[1])
        det = {"party": party, "search": s, "attributes": attrs, "enc": enc}
        if found[0] == "exc":
            run.check(recs is None, "C16.get_answers_where_find_raises", dict(det, find=found[1], got=obs[1]))
            run.stats["not_evaluable_all_raise"] += 1
            return
        run.check(recs is not None, "C16.get_raises", dict(det, got=obs[1]))
        sids = [X.SidObs(v) for v in X.items(obs[0])]
        if party == "GA":
            # types configured without a Getter yield nothing (and do not fail)
            sids = [v for v in sids if (m.routing.get(v.type) or {}).get("getter")]
        recs = [X.decode(r) for r in recs]
        if step.get("overlap"):
            run.probes["overlapping_alternatives_asked"] += 1
            if party == "GA" and len(recs) > len(sids) and all(isinstance(r, dict) and "sid" in r for r in recs):
                # the records identify their Sid here (encoder str / uri, no attribute list): are the extra ones repeats?
                first = []
                for r in recs:
                    if r not in first:
                        first.append(r)
                run.check(len(first) != len(sids), "C16.getfromall_repeats_records_for_overlapping_alternatives",
                          dict(det, records=len(recs), distinct_records=len(first), found=len(sids)))
        run.check(len(recs) == len(sids), "C16.record_count", dict(det, records=len(recs), found=[v.uri for v in sids][:8],
                                                                 got=[r.get("sid") if isinstance(r, dict) else r for r in recs][:8]))
        for v, rec in zip(sids, recs):
            run.check(isinstance(rec, dict), "C16.record_not_a_mapping", dict(det, got=rec))
            want_sid = {"enc_str": v.string, "enc_uri": v.uri, "enc_none": None}[enc]
            data = dict(st.data(cfg, v.string) or {})
            if want_sid is not None:
                data["sid"] = want_sid
            if attrs is not None:
                want = {k: data.get(k) for k in attrs}
            else:
                want = data
            run.check(rec == want and json.dumps(rec, sort_keys=True, default=str) == json.dumps(want, sort_keys=True, default=str),
                      "C16.record_content", dict(det, sid=v.uri, got=rec, want=want))    # (as JSON text too: 1, 1.0, True differ)
            run.check(list(rec) == list(want) or attrs is None, "C16.record_keys_order", dict(det, got=list(rec), want=list(want)))
        one = X.decode(obs[2])
        run.check(one == (recs[0] if recs else {}), "C16.get_one", dict(det, got=one, first=recs[0] if recs else {}))
        if sids:
            v = sids[0]
            k = (attrs or ATTR_KEYS)[0]
            o2 = run.do(X.seq(X.meth(G, "get_data", v.string, **kw), X.meth(G, "get_attr", v.string, k),
                              X.meth(X.sid(v.string), "get_attr", k)))["~seq"]
            gd = X.decode(o2[0])
            run.check(gd == recs[0], "C16.get_data_vs_record", dict(det, sid=v.uri, got=gd, record=recs[0]))
            full = dict(st.data(cfg, v.string) or {})
            full["sid"] = v.string
            a1, a2 = X.decode(o2[1]), X.decode(o2[2])
            run.check(a1 == full.get(k), "C16.get_attr", dict(det, sid=v.uri, key=k, got=a1, want=full.get(k)))
            if cfg == m.default_config and (m.routing.get(v.type) or {}).get("getter"):
                run.check(a2 == full.get(k), "C16.sid_get_attr", dict(det, sid=v.uri, key=k, got=a2, want=full.get(k)))
            # the caller edits the record it got (nested values too); the next read of that Sid is the stored data again
            o3 = run.do(X.seq(X.call("mutate_nested", X.meth(G, "get_data", v.string, **kw)), X.meth(G, "get_data", v.string, **kw),
                              X.meth(G, "get_one", v.string, **kw)))["~seq"]
            if not X.is_exc(o3[0]):
                again = X.decode(o3[1])
                run.check(again == recs[0], "C16.record_changed_by_a_callers_edit",
                          dict(det, sid=v.uri, first=recs[0], after_edit=again, nested_values_edited=o3[0]))
                if isinstance(o3[0], int) and o3[0] > 0:
                    run.probes["caller_edited_nested_values_of_a_record"] += 1
            run.case_mark(party, s, attrs, enc, [r.get("sid") for r in recs if isinstance(r, dict)][:6], len(recs))
        run.state_mark(sorted((c, sorted(st.attrs[c])) for c in m.configs))


PROFILE = GetterProfile()
