"""Shared machinery for the store profiles (C09-C12, C15, C16, C18): universe building through the
real writer, junk injection, the search family, finder observation helpers."""
import json
import os
import posixpath

from .. import x as X
from .base import (Profile, Vocab, gen_sid, gen_data, writer, getter, finder_paths, do_create, do_write,
                   creatable_types, file_types, NAME_POOL, PLAIN_NAMES)

JUNK_KINDS = ["desync", "unknown_ext", "dotfile", "stray_folder", "wrong_place", "nested_copy", "case_folder", "cwd_none",
              "junk_crowd"]


class StoreProfile(Profile):
    """Ops: create / mirror / write / restart / junk. Subclasses add their check ops."""

    names = NAME_POOL
    allow_dot_direct = False   # never create() directly a folder whose name contains '.', see DESIGN 8

    def vocab(self, run):
        v = run.scratch.get("vocab")
        if v is None:
            v = run.scratch["vocab"] = Vocab(run.m, names=self.names, crowd=bool((run.params or {}).get("crowd")))
        return v

    # ------------------------------------------------------------------ universe
    def plan_universe(self, run, shadow, n, mirror=True, data_p=0.3, cfgs=None, leaf_p=0.75):
        rng, m = run.rng, run.m
        vocab = self.vocab(run)
        pool = run.scratch.setdefault("value_pool", {})
        steps = []
        cfgs = cfgs or m.configs
        tries = 0
        if (run.params or {}).get("crowd") and not run.scratch.get("crowded"):
            # one crowded directory: many siblings at one unconstrained level (thresholds on list / directory size)
            run.scratch["crowded"] = True
            cfg = m.default_config
            t = rng.choice(file_types(m, vocab, cfg) if rng.random() < 0.6 else creatable_types(m, vocab, cfg))
            frees = [i for i, k in enumerate(m.by_name[t].keys) if m.vocab(t, k)[0] == "free"]
            base = gen_sid(rng, m, vocab, t, pool, reuse=0.8)
            if base and frees:
                i = frees[-1]
                from .base import CROWD_NAMES
                for nm in rng.sample(CROWD_NAMES, rng.choice([rng.randint(18, 40), rng.randint(52, 72), rng.randint(66, 100)])):
                    segs = base.split("/")
                    segs[i] = nm
                    s2 = "/".join(segs)
                    if m.natural_type(s2) != t or ("." in segs[-1] and not m.is_leaf_type(t)):
                        continue
                    if mirror and all(shadow.can_create(c, s2) == "ok" for c in m.configs):
                        for c in m.configs:
                            shadow.create(c, s2, None)
                        steps.append({"op": "mirror", "sid": s2, "data": None})
                    elif not mirror and shadow.can_create(cfg, s2) == "ok":
                        shadow.create(cfg, s2, None)
                        steps.append({"op": "create", "cfg": cfg, "sid": s2, "data": None})
        while len(steps) < n and tries < n * 6:
            tries += 1
            cfg = rng.choice(cfgs)
            leafs = file_types(m, vocab, cfg)
            alls = creatable_types(m, vocab, cfg)
            t = rng.choice(leafs if rng.random() < leaf_p else alls)
            s = gen_sid(rng, m, vocab, t, pool, reuse=0.8)
            if s is None:
                continue
            last = s.split("/")[-1]
            if not m.is_leaf_type(t) and "." in last:
                continue   # see allow_dot_direct
            data = gen_data(rng) if rng.random() < data_p else None
            if mirror:
                if any(shadow.can_create(c, s) != "ok" for c in m.configs):
                    continue
                for c in m.configs:
                    shadow.create(c, s, data)
                steps.append({"op": "mirror", "sid": s, "data": data})
            else:
                if shadow.can_create(cfg, s) != "ok":
                    continue
                shadow.create(cfg, s, data)
                steps.append({"op": "create", "cfg": cfg, "sid": s, "data": data})
            if rng.random() < 0.08:
                # a twin under the same parent whose name differs from this one's only by case ('bob' / 'BOB')
                segs = s.split("/")
                frees = [i for i, k in enumerate(m.by_name[t].keys) if m.vocab(t, k)[0] == "free" and segs[i].swapcase() != segs[i]]
                if frees:
                    i = frees[-1]
                    segs[i] = segs[i].swapcase() if rng.random() < 0.5 else (segs[i].upper() if segs[i] != segs[i].upper() else segs[i].lower())
                    s2 = "/".join(segs)
                    if m.natural_type(s2) == t:
                        if mirror and all(shadow.can_create(c, s2) == "ok" for c in m.configs):
                            for c in m.configs:
                                shadow.create(c, s2, None)
                            steps.append({"op": "mirror", "sid": s2, "data": None})
                            run.probes["case_twin_entities"] += 1
                        elif not mirror and shadow.can_create(cfg, s2) == "ok":
                            shadow.create(cfg, s2, None)
                            steps.append({"op": "create", "cfg": cfg, "sid": s2, "data": None})
                            run.probes["case_twin_entities"] += 1
        return steps

    BOUNDARY_TARGETS = [k * 4096 + d for k in (1, 2, 3, 16) for d in (-1, 0, 1)] + [8192 * 8 + 1, 512, 513, 1024 + 1]

    def boundary_episode(self, run, cfg, sid):
        """[write with a measured blob, marker]: the marker is resolved by boundary_followup() once the size is known."""
        return [{"op": "write", "cfg": cfg, "sid": sid, "how": "set", "data": {"blob": "a" * 300}, "measure": True},
                {"op": "boundary", "cfg": cfg, "sid": sid}]

    def boundary_followup(self, run, marker):
        """The concrete second write: the same blob key, sized so that the sidecar's serialised text is exactly a
        target number of bytes (a multiple of a block size, one less, one more). The serialisation is the writer's own:
        its overhead is the measured size minus the 300 characters of the first blob."""
        size = run.scratch.get("measured")
        if not isinstance(size, int) or size < 300:
            return None
        target = run.rng.choice(self.BOUNDARY_TARGETS)
        n = 300 + target - size
        if n < 1:
            return None
        run.probes["writes_sized_to_a_block_boundary"] += 1
        return {"op": "write", "cfg": marker["cfg"], "sid": marker["sid"], "how": run.rng.choice(["set", "update"]),
                "data": {"blob": "a" * n}, "measure": True, "target": target}

    # ------------------------------------------------------------------ common ops
    def apply_common(self, run, step):
        op = step["op"]
        if op == "create":
            kind, obs = do_create(run, step["cfg"], step["sid"], step.get("data"))
            self.after_create(run, step, kind, obs)
        elif op == "mirror":
            for c in run.m.configs:
                kind, obs = do_create(run, c, step["sid"], step.get("data"))
                self.after_create(run, dict(step, cfg=c), kind, obs)
        elif op == "write":
            exists, obs = do_write(run, step["cfg"], step["sid"], step["how"], step["data"])
            self.after_write(run, step, exists, obs)
            if step.get("measure"):
                # size of the sidecar as written (input for a follow-up write that lands on a block boundary)
                mp = run.m.path_of_sid(step["sid"], step["cfg"])
                run.scratch["measured"] = run.do(X.call("getsize", X.call("data_path", mp))) if mp else -1
        elif op == "restart":
            run.start_epoch()
            run.scratch.pop("finders", None)
        elif op == "junk":
            self.apply_junk(run, step)
        else:
            return False
        run.state_mark("store", sorted(run.store.entities[run.m.default_config]),
                       sorted(run.scratch.get("junk", [])))
        return True

    def after_create(self, run, step, kind, obs):
        ok = (kind == "ok" and obs is True) or (kind != "ok" and X.exc_name(obs) == "SpilException")
        if not ok:
            run.stats["precondition_unexpected"] += 1

    def after_write(self, run, step, exists, obs):
        ok = (exists and obs is True) or (not exists and X.exc_name(obs) == "SpilException")
        if not ok:
            run.stats["precondition_unexpected"] += 1

    # ------------------------------------------------------------------ junk
    def plan_junk(self, run, shadow, kinds=None):
        """One junk step: a foreign file or folder that no path template accepts."""
        rng, m = run.rng, run.m
        kinds = kinds or JUNK_KINDS
        for _ in range(12):
            kind = rng.choice(kinds)
            cfg = rng.choice(m.configs)
            ents = sorted(shadow.paths[cfg].items())
            if not ents:
                return None
            root = m.roots(cfg)
            files = [(s, p) for s, p in ents if m.is_leaf_type(shadow.entities[cfg][s])]
            dirs = [(s, p) for s, p in ents if not m.is_leaf_type(shadow.entities[cfg][s])]
            path, isdir, content, count = None, False, "", 0
            if kind == "desync" and len(files) >= 1:
                s, p = rng.choice(files)
                d, fn = posixpath.split(p)
                # another valid file name (different value for a repeated field) in this directory
                others = [q for s2, q in files if posixpath.dirname(q) != d and posixpath.basename(q) != fn]
                if others:
                    path = d + "/" + posixpath.basename(rng.choice(others))
                else:
                    stem, ext = posixpath.splitext(fn)
                    parts = stem.split("_")
                    if len(parts) > 2:
                        parts[1] = parts[1] + "X"
                        path = d + "/" + "_".join(parts) + ext
            elif kind == "unknown_ext" and files:
                s, p = rng.choice(files)
                path = p + rng.choice(["~", ".bak", ".tmp", ".swp"]) if rng.random() < 0.5 else posixpath.splitext(p)[0] + rng.choice([".xyz", ".txt", ".ma1", ""])
            elif kind == "dotfile":
                s, p = rng.choice(ents)
                d = posixpath.dirname(p)
                path = d + "/" + rng.choice([".DS_Store", "." + posixpath.basename(p) + ".data.json.tmp", ".nfs0001", ".thumbs.data.json"])
                content = rng.choice(["", "{}", "{\"a\": 1}", "garbage"])
            elif kind == "stray_folder" and dirs:
                s, p = rng.choice(dirs)
                path = p + "/" + rng.choice(["tmp", "v1", "sq10", "Thumbs", "OUTPUT2", "old", "_trash", "v0001"])
                isdir = True
            elif kind == "wrong_place" and files:
                s, p = rng.choice(files)
                d, fn = posixpath.split(p)
                if posixpath.basename(d) in ("OUTPUT", "EXPORT"):
                    path = posixpath.dirname(d) + "/" + fn
                else:
                    path = d + "/" + rng.choice(["OUTPUT", "EXPORT"]) + "/" + fn
            elif kind == "nested_copy" and files:
                s, p = rng.choice(files)
                d, fn = posixpath.split(p)
                path = d + "/backup/" + fn
            elif kind == "junk_crowd" and dirs:
                # dozens of foreign entries in one directory, sorting before and after the real ones
                s, p = rng.choice(dirs)
                path = p + "/" + rng.choice(["_backup_", "000_tmp_", "zz_old_"])
                isdir = rng.random() < 0.5
                count = rng.choice([12, 55, 70])
            elif kind == "case_folder":
                path = root + rng.choice(["hamlet", "Hamlet", "HAMLET2", "HAMLET/PROD2", "HAMLET/prod"])
                isdir = True
            elif kind == "cwd_none":
                path = "@cwd/None"
                content = "x"
            if not path:
                continue
            if path.startswith("@cwd/"):
                rel = path
            else:
                probe = path + ("000" if count else "")
                if any(m.resolve_path(probe, c) is not None for c in m.configs):
                    continue   # a template accepts it: not junk, by definition
                # an ancestor directory that does not exist yet must not be an entity either
                bad = False
                d = posixpath.dirname(path)
                have = set(shadow.paths[cfg].values())
                while d.startswith(root) and len(d) > len(root):
                    if d not in have and any(m.resolve_path(d, c) is not None for c in m.configs):
                        bad = True
                        break
                    d = posixpath.dirname(d)
                if bad or path in shadow.paths[cfg].values():
                    continue
                rel = path[len("<W>/"):] if path.startswith("<W>/") else os.path.relpath(path, run.world.root)
            st = {"op": "junk", "kind": kind, "rel": rel, "dir": isdir, "content": content}
            if count:
                st["count"] = count
            return st
        return None

    def apply_junk(self, run, step):
        w = run.world
        rel = step["rel"]
        if rel.startswith("@cwd/"):
            p = os.path.join(w.cwd, rel[5:])
        else:
            p = os.path.join(w.root, rel)
            ok = p.startswith(w.disks + os.sep) and not any(
                run.m.resolve_path("<W>/" + rel, c) is not None for c in run.m.configs)
            if not ok:
                run.stats["junk_skipped"] += 1
                return
        targets = [p] if not step.get("count") else [p + "%03d" % i for i in range(int(step["count"]))]
        if step.get("count") and any(run.m.resolve_path("<W>/" + rel + "%03d" % i, c) is not None
                                     for i in (0, 1) for c in run.m.configs):
            run.stats["junk_skipped"] += 1
            return
        if any(os.path.lexists(t) for t in targets):
            run.stats["junk_skipped"] += 1
            return
        try:
            for t in targets:
                if step.get("dir"):
                    os.makedirs(t)
                else:
                    os.makedirs(os.path.dirname(t), exist_ok=True)
                    with open(t, "w") as f:
                        f.write(step.get("content") or "")
        except OSError:
            run.stats["junk_skipped"] += 1
            return
        run.scratch.setdefault("junk", []).append(rel)
        run.fired["junk:" + step["kind"]] += 1
        # monitor[C06] (unclaimed, reported only): a foreign path handed to Sid(path=...) never raises, and when it
        # yields a typed Sid, that Sid's path is the path
        if not rel.startswith("@cwd/"):
            for c in run.m.configs:
                mp = "<W>/" + rel
                o = run.do(X.seq(X.call("Sid", path=mp, config=c), X.meth(X.call("Sid", path=mp, config=c), "path", c)))["~seq"]
                run.probes["c06_monitor_paths"] += 1
                typed = isinstance(o[0], dict) and "~S" in o[0] and o[0]["~S"][0]
                if X.is_exc(o[0]) or (typed and not (isinstance(o[1], dict) and o[1].get("~P") == mp)):
                    run.probes["c06_monitor_anomalies"] += 1

    # ------------------------------------------------------------------ finders
    def finder_exprs(self, run):
        """Expressions for the parties. FindInList gets the model's entity list of each config."""
        m = run.m
        out = {}
        lv = (run.params or {}).get("list_variant", "plain")
        for c in m.configs:
            out["P:" + c] = X.call("FindInPaths", c)
            items = run.store.listing(c)
            if lv == "strip":
                # do_strip strips the RETURNED items only (matching is done on the entries as given, so entries with a
                # trailing newline legitimately do not match a literal ending -- tried first, a false expectation): on a
                # clean list the option must change nothing
                out["L:" + c] = X.call("FindInList", items, do_strip=True)
                run.probes["findinlist_do_strip"] += 1
            elif lv == "presort":
                # unsorted list with repeats, sorted and uniquified by the finder: same set of answers
                out["L:" + c] = X.call("FindInList", list(reversed(items)) + items[:3], do_pre_sort=True)
                run.probes["findinlist_do_pre_sort"] += 1
            else:
                out["L:" + c] = X.call("FindInList", items)
        out["A"] = X.call("FindInAll")
        return out

    def find(self, run, fexpr, search, as_sid=True):
        e = X.meth(fexpr, "find", search) if as_sid else X.meth(fexpr, "find", search, as_sid=False)
        return run.do(e)


# ---------------------------------------------------------------------------------------------
# search family (DESIGN 4)

SEPARATORS = ["_", "-", ".", "+"]


def typed_prefixes(m, ents):
    """Typed prefixes of the entities that are not entities themselves (levels without a path, e.g. the
    constant-backed state level): bases for searches at those levels."""
    have = set(ents)
    out = set()
    for e in ents:
        segs = e.split("/")
        for k in range(1, len(segs)):
            p = "/".join(segs[:k])
            if p not in have and m.natural_type(p):
                out.add(p)
    return sorted(out)


def _file_name_only(m, tn, key):
    pt = m.path[m.default_config]["by_type"].get(tn)
    if pt is None:
        return False
    head, _, tail = pt.template.rpartition("/")
    return ("{" + key) in tail and ("{" + key) not in head


def near_miss(rng, m, ents):
    """A Sid string that does not exist but whose value at one free-form position is an existing value cut at
    the filename separator ('x_y' -> 'x'): file-name globbing must not confuse the two. Returns (base, index)."""
    cands = []
    for e in ents:
        tn = m.natural_type(e)
        if not tn:
            continue
        for i, seg in enumerate(e.split("/")):
            if m.vocab(tn, m.by_name[tn].keys[i])[0] != "free":
                continue
            for sep in SEPARATORS:      # the file-name separator of the configuration is one of these
                if sep in seg.strip(sep):
                    cands.append((e, i, sep))
                    # a field that only occurs in the file name (no folder anchors it) is where globbing can confuse
                    # two values: weighted up
                    if _file_name_only(m, tn, m.by_name[tn].keys[i]):
                        cands += [(e, i, sep)] * 4
    if not cands:
        return None, None
    e, i, sep = rng.choice(sorted(cands))
    segs = e.split("/")
    segs[i] = segs[i].rsplit(sep, 1)[0]
    base = "/".join(segs)
    if m.natural_type(base) != m.natural_type(e):
        return None, None
    return base, i


def gen_search(rng, m, vocab, base, simple=False, allow_last=False, allow_filter=True, allow_dstar=True, keep=()):
    """A search derived from a valid Sid string. Returns (search, features). Positions in `keep` stay literal."""
    tn = m.natural_type(base)
    t = m.by_name[tn]
    segs = base.split("/")
    n = len(segs)
    out = list(segs)
    feats = set()
    p_star = rng.choice([0.2, 0.4, 0.7])
    for i in range(n):
        r = rng.random()
        if i in keep:
            continue
        if r < p_star:
            out[i] = "*"
            feats.add("star")
        elif (not simple and any(sp in segs[i].strip(sp) for sp in SEPARATORS) and rng.random() < 0.6
              and m.vocab(tn, t.keys[i])[0] == "free"):
            # near-miss pair: the value and the value cut at a filename separator, in either order; often with a
            # wildcard right after it (the glob of the shorter value then also matches the longer one's files)
            sp = [x for x in SEPARATORS if x in segs[i].strip(x)][0]
            pair = [segs[i], segs[i].rsplit(sp, 1)[0]]
            rng.shuffle(pair)
            out[i] = ",".join(pair)
            feats.add("comma_near_miss")
            if i + 1 < n and (i + 1) not in keep and rng.random() < 0.5:
                out[i + 1] = "*"
                keep = tuple(keep) + (i + 1,)
        elif not simple and r < p_star + 0.12:
            vals = [v for v in (vocab.values(tn, t.keys[i]) or []) if v != segs[i]]
            if i == n - 1 and m.is_leaf_type(tn) and rng.random() < 0.5:
                # extensions of the sibling file types too (ma, mov, abc ...): the alternatives unfold into typed searches of
                # several types, interleaved in string order
                for t2 in m.types:
                    if t2.n == n and t2.name != tn and t2.keys[:-1] == t.keys[:-1] and m.is_leaf_type(t2.name):
                        vals += [v for v in (vocab.values(t2.name, t2.keys[-1]) or []) if v not in vals and v != segs[i]]
                feats.add("comma_across_types")
            if vals:
                k = rng.randint(1, min(3 if "comma_across_types" in feats else 2, len(vals)))
                alts = [segs[i]] + rng.sample(vals, k)
                if rng.random() < 0.06:
                    alts = alts[:2] + ["*"]      # overlapping alternatives: every finder still yields each result once
                    feats.add("comma_overlap")
                rng.shuffle(alts)
                out[i] = ",".join(alts)
                feats.add("comma")
    if simple:
        if not feats:
            j = rng.randrange(n)
            out[j] = "*"
        return "/".join(out), {"simple"}
    # alias in the last segment of a leaf type
    if m.is_leaf_type(tn) and rng.random() < 0.25:
        al = [a for a, mem in sorted(m.alias.items()) if t.regex[-1].fullmatch(a)]
        if al:
            out[-1] = rng.choice(al)
            feats.add("alias")
    last_as_query = None
    if allow_last and rng.random() < 0.5:
        j = rng.randrange(1, n) if n > 1 else 0
        out[j] = ">"
        feats.add("last")
        if rng.random() < 0.25:
            # the same 'last' written through a query: '.../*/...?version=>'
            out[j] = "*"
            last_as_query = "%s=>" % t.keys[j]
            feats.add("last_as_query")
        if rng.random() < 0.2 and j + 1 < n:
            out[rng.randrange(j + 1, n)] = ">"
            feats.add("last2")
    s = "/".join(out)
    if allow_dstar and n > 2 and rng.random() < 0.3:
        i = rng.randrange(1, n - 1)
        j = rng.randrange(i + 1, n + 1)
        if all(x in ("*",) or True for x in out[i:j]):
            s = "/".join(out[:i] + ["**"] + out[j:])
            feats.add("dstar")
    if allow_filter and rng.random() < 0.3:
        nf = rng.randint(1, 2)
        filt = []
        for _ in range(nf):
            k = rng.choice(t.keys)
            vals = [x for x in (vocab.values(tn, k) or ["x"]) if "+" not in x] or ["x"]
            v = rng.choice(vals + [segs[t.keys.index(k)]])
            if "+" in v:   # URL metacharacter: '+' decodes to a space in a query (outside the family)
                v = vals[0]
            pre = "~" if rng.random() < 0.25 else ""
            if rng.random() < 0.15 and len(vals) > 1:
                v = v + "," + rng.choice([x for x in vals if x != v])
            filt.append("%s=%s%s" % (k, pre, v))
        if last_as_query:
            filt.append(last_as_query)
            last_as_query = None
        s += "?" + "&".join(filt)
        feats.add("filter")
    if last_as_query:
        s += "?" + last_as_query
    return s, feats
