"""C15 -- created entities exist, and attribute data reads back what was written (DESIGN 5.3)."""
import itertools
import json

from .. import x as X
from .base import gen_sid, gen_data, writer, getter, finder_paths, Vocab, PLAIN_NAMES, file_types, creatable_types
from .storebase import StoreProfile


class CrudProfile(StoreProfile):
    name = "crud"
    prop = "C15"
    names = PLAIN_NAMES + ["x_y", "bob-x", "zoé", "zoe\u0301"]
    rule = ("one case = one operation (create / set / update / restart) of a seeded or swept history followed by the "
            "full invariant pass (error behaviour + unchanged tree, existence of the entity and its path ancestors in "
            "every matching star search with nothing else appearing, data of every alphabet Sid = overlay in call order, "
            "through a new Getter instance, also after restart); bounded sweep = every sequence of <= N ops over an "
            "8-op alphabet; distinct = distinct (op kind, outcome, store state) marks")

    def evaluations(self, stats, runs):
        return stats.get("ops_checked", 0)

    def params(self, rng, tier):
        p = super().params(rng, tier)
        p["n_ops"] = rng.randint(4, 16 if tier == "quick" else 40)
        p["capacity"] = rng.choice([4096, 4096, 64, 8, 2])
        return p

    # ------------------------------------------------------------------ alphabet
    def alphabet(self, run):
        """A small alphabet of Sids: file, extension twin, sibling, parent folders, no-path Sid, untyped."""
        a = run.scratch.get("alphabet")
        if a is not None:
            return a
        rng, m = run.rng, run.m
        vocab = self.vocab(run)
        cfg = m.default_config
        ft = sorted(file_types(m, vocab, cfg))
        t = rng.choice(ft)
        f1 = None
        while f1 is None:
            f1 = gen_sid(rng, m, vocab, t, {}, reuse=0)
        segs = f1.split("/")
        alpha = {"F1": f1}
        # extension twin (same sidecar key) when the type offers another extension
        exts = [e for e in (vocab.values(t, m.by_name[t].keys[-1]) or []) if e != segs[-1]]
        twin = "/".join(segs[:-1] + [rng.choice(exts)]) if exts else None
        if twin and m.natural_type(twin) == t:
            alpha["F2"] = twin
        # same fields, an extension of ANOTHER file type (scene 'ma' vs movie 'mp4'): same file stem, but another
        # type, usually another directory: their data must stay independent
        for t2 in ft:
            if t2 != t and m.by_name[t2].keys == m.by_name[t].keys:
                e2 = [e for e in (vocab.values(t2, m.by_name[t2].keys[-1]) or [])]
                if e2:
                    cand = "/".join(segs[:-1] + [rng.choice(e2)])
                    if m.natural_type(cand) == t2:
                        alpha["F4"] = cand
                        break
        # sibling in the same directory with another value for the second-to-last key
        k2 = m.by_name[t].keys[-2]
        alts = [v for v in (vocab.values(t, k2) or []) if v != segs[-2]]
        if alts:
            sib = "/".join(segs[:-2] + [rng.choice(alts), segs[-1]])
            if m.natural_type(sib) == t:
                alpha["F3"] = sib
        # path ancestors (parents)
        anc = [p for p in ("/".join(segs[:i]) for i in range(1, len(segs))) if m.natural_type(p) and
               m.has_path(m.natural_type(p), cfg)]
        if anc:
            alpha["D1"] = anc[-1]
        if len(anc) > 2:
            alpha["D2"] = anc[-3]
        if anc:
            # a sibling of D1 whose name differs from D1's in the LAST character only (v001 / v002, bob / boc)
            d1 = anc[-1]
            for ch in "2b0a1":
                d3 = d1[:-1] + ch
                if d3 != d1 and m.natural_type(d3) == m.natural_type(d1):
                    alpha["D3"] = d3
                    break
        # same branch top, another value at the first free-form level: creating it creates NEW ancestors below
        # directories whose listing has been asked (and found non-empty) before
        for i, k in enumerate(m.by_name[t].keys):
            if m.vocab(t, k)[0] == "free":
                alt = [v for v in vocab.values(t, k) if v != segs[i]]
                if alt:
                    h = "/".join(segs[:i] + [rng.choice(alt)] + segs[i + 1:])
                    if m.natural_type(h) == t:
                        alpha["H"] = h
                break
        # a Sid of a type without path template, an untyped string
        nop = [p for p in ("/".join(segs[:i]) for i in range(1, len(segs))) if m.natural_type(p) and
               not m.has_path(m.natural_type(p), cfg)]
        if nop:
            alpha["NP"] = nop[-1]
        alpha["U"] = "foo/bar"
        # an unrelated file of another basetype
        others = [x for x in ft if m.basetype(x) != m.basetype(t)]
        if others:
            g = gen_sid(rng, m, vocab, rng.choice(others), {}, reuse=0)
            if g:
                alpha["G"] = g
        run.scratch["alphabet"] = alpha
        return alpha

    def gen(self, run, i):
        rng, m = run.rng, run.m
        if i >= run.params["n_ops"]:
            return None
        alpha = self.alphabet(run)
        if i == 0:
            return {"op": "alphabet", "sids": alpha}
        q = run.scratch.setdefault("queue", [])
        if i == 1 and "F2" in alpha and rng.random() < 0.3:
            # an episode on the two Sids that share one sidecar (paths differing only by extension): interleaved
            # writes, then a new process
            cfg0 = m.default_config
            q += [{"op": "create", "cfg": cfg0, "sid": alpha["F1"], "data": None},
                  {"op": "create", "cfg": cfg0, "sid": alpha["F2"], "data": None}]
            order = [rng.choice(["F1", "F2"]) for _ in range(rng.randint(3, 5))]
            for j, nme in enumerate(order):
                q.append({"op": "write", "cfg": cfg0, "sid": alpha[nme], "how": rng.choice(["set", "update"]),
                          "data": {"k%d" % j: j, "comment": "w%d" % j}})
            q.append({"op": "restart"})
        if i == 1 and not q and rng.random() < 0.06:
            # values that compare equal and are different data (1, True, 1.0), None for a key that is new
            cfg0 = m.default_config
            vals = [1, True, 1.0, 0, False, 0.0]
            rng.shuffle(vals)
            q += [{"op": "create", "cfg": cfg0, "sid": alpha["F1"], "data": {"ok": vals[0]}}]
            for v in vals[1:4]:
                q.append({"op": "write", "cfg": cfg0, "sid": alpha["F1"], "how": rng.choice(["set", "update"]), "data": {"ok": v}})
            q.append({"op": "write", "cfg": cfg0, "sid": alpha["F1"], "how": "update", "data": {"frames": None}})
        if i == 1 and not q and rng.random() < 0.06:
            # a dictionary value replaced by a smaller dictionary (later values REPLACE earlier ones, they are not merged)
            cfg0 = m.default_config
            q += [{"op": "create", "cfg": cfg0, "sid": alpha["F1"], "data": {"meta": {"a": 1, "b": [1, 2], "c": {"d": 1}}}},
                  {"op": "write", "cfg": cfg0, "sid": alpha["F1"], "how": rng.choice(["set", "update"]), "data": {"meta": {"a": 2}}},
                  {"op": "write", "cfg": cfg0, "sid": alpha["F1"], "how": "set", "data": {"meta": {"c": {}}, "tags": {"x": 1}}},
                  {"op": "write", "cfg": cfg0, "sid": alpha["F1"], "how": rng.choice(["set", "update"]), "data": {"tags": {"y": 2}}}]
        if i == 1 and not q and rng.random() < 0.06:
            # a write whose serialised sidecar lands exactly on / next to a block boundary
            cfg0 = m.default_config
            q += [{"op": "create", "cfg": cfg0, "sid": alpha["F1"], "data": None}] + self.boundary_episode(run, cfg0, alpha["F1"])
        while q:
            st = q.pop(0)
            if st["op"] == "boundary":
                st = self.boundary_followup(run, st)
                if st is None:
                    continue
            return st
        names = sorted(alpha)
        r = rng.random()
        cfg = rng.choice(m.configs) if rng.random() < 0.3 else m.default_config
        n = rng.choice(names)
        if r < 0.08:
            return {"op": "restart"}
        if r < 0.40:
            data = gen_data(rng) if rng.random() < 0.4 else None
            return {"op": "create", "cfg": cfg, "sid": alpha[n], "data": data, "obj": rng.random() < 0.3}
        how = "set" if r < 0.7 else "update"
        return {"op": "write", "cfg": cfg, "sid": alpha[n], "how": how, "obj": rng.random() < 0.3,
                "data": gen_data(rng, nmax=2, keys=["comment", "frames", "ok"], big=rng.random() < 0.04)}

    # ------------------------------------------------------------------ execution
    def apply(self, run, step):
        op = step["op"]
        if op == "alphabet":
            run.scratch["alphabet"] = step["sids"]
            return
        if op == "restart":
            run.start_epoch()
            self.invariants(run, "restart")
            return
        before = run.world.digest()
        if op == "create":
            from .base import do_create
            kind, obs = do_create(run, step["cfg"], step["sid"], step.get("data"), obj=bool(step.get("obj")))
            outcome = kind
            if kind == "ok":
                run.check(obs is True, "C15.create_fails", {"sid": step["sid"], "cfg": step["cfg"], "got": obs})
            elif kind == "exists":
                run.check(X.exc_name(obs) == "SpilException", "C15.create_existing_not_refused",
                          {"sid": step["sid"], "cfg": step["cfg"], "got": obs})
                run.check(run.world.digest() == before, "C15.failed_create_changed_something", {"sid": step["sid"]})
            else:
                run.check(X.exc_name(obs) == "SpilException" or obs is False, "C15.create_without_path",
                          {"sid": step["sid"], "cfg": step["cfg"], "got": obs})
                run.check(run.world.digest() == before, "C15.failed_create_changed_something", {"sid": step["sid"]})
        elif op == "write":
            from .base import do_write
            exists, obs = do_write(run, step["cfg"], step["sid"], step["how"], step["data"], obj=bool(step.get("obj")))
            outcome = "w" if exists else "missing"
            if step.get("measure"):
                mp = run.m.path_of_sid(step["sid"], step["cfg"])
                run.scratch["measured"] = run.do(X.call("getsize", X.call("data_path", mp))) if mp else -1
                if step.get("target") and run.scratch["measured"] == step["target"]:
                    run.probes["sized_write_landed_on_target"] += 1     # (a probe of the harness' aim, not an oracle)
            if exists:
                run.check(obs is True, "C15.write_fails", {"sid": step["sid"], "how": step["how"], "got": obs})
            else:
                run.check(X.exc_name(obs) == "SpilException", "C15.write_missing_not_refused",
                          {"sid": step["sid"], "how": step["how"], "got": obs})
                run.check(run.world.digest() == before, "C15.failed_write_changed_something", {"sid": step["sid"]})
        else:
            raise ValueError(op)
        run.stats["ops_checked"] += 1
        self.invariants(run, op)
        st = run.store
        run.case_mark(op, outcome, step.get("how"), sorted(st.entities[step["cfg"]]),
                      sorted((k, sorted(v)) for k, v in st.attrs[step["cfg"]].items()))
        run.state_mark(sorted((c, sorted(st.entities[c])) for c in run.m.configs))

    def invariants(self, run, after):
        m, st = run.m, run.store
        alpha = run.scratch.get("alphabet") or {}
        sids = sorted(set(alpha.values()))
        for cfg in m.configs:
            # existence: star searches at every depth of the alphabet give exactly the model's entities
            depths = sorted({len(s.split("/")) for s in sids} | {len(e.split("/")) for e in st.entities[cfg]})
            exprs = [X.meth(finder_paths(cfg), "find", "/".join(["*"] * d)) for d in depths]
            # narrower searches around every alphabet Sid
            near = sorted({"/".join(s.split("/")[:-1] + ["*"]) for s in sids if "/" in s})
            exprs += [X.meth(finder_paths(cfg), "find", q) for q in near]
            reads = [s for s in sids if st.exists(cfg, s)]
            # through a new Getter instance, and (every other pass) through the one the client keeps; Sid given as
            # string or as Sid object
            G = getter(cfg) if run.stats["ops_checked"] % 2 == 0 else X.held(getter(cfg))
            exprs += [X.meth(G, "get_data", s if k % 2 == 0 else X.sid(s)) for k, s in enumerate(reads)]
            if cfg == m.default_config:
                exprs += [X.meth(X.sid(s), "exists") for s in sids]
                exprs += [X.meth(X.call("FindInAll"), "find", "/".join(["*"] * d)) for d in depths]
            obs = iter(run.do(X.seq(*exprs))["~seq"])
            for d in depths + near:
                q = d if isinstance(d, str) else "/".join(["*"] * d)
                got = X.uris(next(obs))
                run.check(got is not None, "C15.search_fails", {"search": q, "cfg": cfg, "after": after})
                want = st.find_simple(cfg, q)
                run.check(set(got) == want and len(got) == len(set(got)), "C15.existence",
                          {"search": q, "cfg": cfg, "after": after, "missing": sorted(want - set(got)),
                           "extra": sorted(set(got) - want)})
            for s in reads:
                o = next(obs)
                d = X.undict(o)
                run.check(d is not None, "C15.read_fails", {"sid": s, "cfg": cfg, "got": o, "after": after})
                run.check(d.get("sid") == s, "C15.sid_entry", {"sid": s, "cfg": cfg, "got": d.get("sid")})
                d.pop("sid", None)
                want = st.data(cfg, s)
                sharers = st.shares_key(cfg, s)
                # compared as JSON text: 1, 1.0 and True are equal in Python and different data
                def same(a, b):
                    return json.dumps(a, sort_keys=True) == json.dumps(b, sort_keys=True)
                ok = same(d, want) or (bool(sharers) and same(d, st.own[cfg].get(s, {})))   # shared sidecars: permissive
                run.check(ok, "C15.data_readback" if not sharers else "C15.data_readback_shared_sidecar",
                          {"sid": s, "cfg": cfg, "got": d, "want": want, "after": after, "sharers": sharers})
            if cfg == m.default_config:
                for s in sids:
                    o = next(obs)
                    want = self.exists_all(run, s)
                    if want is not None:
                        run.check(o is want, "C15.sid_exists", {"sid": s, "got": o, "want": want, "after": after})
                for d in depths:
                    q = "/".join(["*"] * d)
                    got = X.uris(next(obs))
                    run.check(got is not None, "C15.search_all_fails", {"search": q, "after": after})
                    want = st.find_all_simple(q)
                    if want is not None:
                        run.check(set(got) == want, "C15.existence_all",
                                  {"search": q, "after": after, "missing": sorted(want - set(got)), "extra": sorted(set(got) - want)})

    def exists_all(self, run, s):
        """sid.exists() under the FindInAll existence model; None when not modelled (untyped -> False)."""
        m = run.m
        tn = m.natural_type(s)
        if not tn:
            return False
        r = run.store._find_all_typed(tn, s)
        if r is None:
            return None
        return m.uri(s, tn) in r

    # ------------------------------------------------------------------ bounded sweep
    def sweep(self, model, tier):
        """Every sequence of <= N operations over an 8-op alphabet (N = 4 quick, 5 thorough)."""
        import random
        rng = random.Random(15)
        vocab = Vocab(model, names=PLAIN_NAMES)
        cfg = model.default_config
        t = sorted(file_types(model, vocab, cfg))[0]
        f1 = None
        while f1 is None:
            f1 = gen_sid(rng, model, vocab, t, {}, reuse=0)
        segs = f1.split("/")
        k2 = model.by_name[t].keys[-2]
        alts = [v for v in (vocab.values(t, k2) or []) if v != segs[-2]]
        f3 = "/".join(segs[:-2] + [alts[0], segs[-1]]) if alts else f1
        anc = [p for p in ("/".join(segs[:i]) for i in range(1, len(segs))) if model.natural_type(p) and
               model.has_path(model.natural_type(p), cfg)]
        d1 = anc[-1]
        alpha = {"F1": f1, "F3": f3, "D1": d1}
        ops = [
            {"op": "create", "cfg": cfg, "sid": f1, "data": None},
            {"op": "create", "cfg": cfg, "sid": f3, "data": {"comment": "c0"}},
            {"op": "create", "cfg": cfg, "sid": d1, "data": None},
            {"op": "write", "cfg": cfg, "sid": f1, "how": "set", "data": {"a": 1}},
            {"op": "write", "cfg": cfg, "sid": f1, "how": "update", "data": {"a": 2, "b": [1]}},
            {"op": "write", "cfg": cfg, "sid": f3, "how": "set", "data": {"a": 7}},
            {"op": "write", "cfg": cfg, "sid": d1, "how": "update", "data": {"b": "x"}},
            {"op": "restart"},
        ]
        nmax = 4 if tier == "quick" else 5
        head = {"op": "alphabet", "sids": alpha}
        for n in range(1, nmax + 1):
            for combo in itertools.product(range(len(ops)), repeat=n):
                yield {"params": {"listing": "sorted", "sweep": list(combo)}, "steps": [head] + [ops[i] for i in combo]}
        # second alphabet (thorough): an extension twin sharing the sidecar, and a Sid whose creation makes new ancestors
        if tier != "thorough":
            return
        exts = [e for e in (vocab.values(t, model.by_name[t].keys[-1]) or []) if e != segs[-1]]
        f2 = "/".join(segs[:-1] + [exts[0]]) if exts else f1
        h = f1
        for i, k in enumerate(model.by_name[t].keys):
            if model.vocab(t, k)[0] == "free":
                alt = [v for v in vocab.values(t, k) if v != segs[i]]
                if alt:
                    h = "/".join(segs[:i] + [alt[0]] + segs[i + 1:])
                break
        alpha2 = {"F1": f1, "F2": f2, "H": h}
        ops2 = [
            {"op": "create", "cfg": cfg, "sid": f1, "data": {"a": 0}},
            {"op": "create", "cfg": cfg, "sid": f2, "data": {"c": "twin"}},
            {"op": "create", "cfg": cfg, "sid": h, "data": None},
            {"op": "write", "cfg": cfg, "sid": f1, "how": "set", "data": {"a": 1}},
            {"op": "write", "cfg": cfg, "sid": f2, "how": "update", "data": {"a": 2}},
            {"op": "write", "cfg": cfg, "sid": h, "how": "set", "data": {"a": 3}},
            {"op": "restart"},
        ]
        head2 = {"op": "alphabet", "sids": alpha2}
        for n in range(1, 5):
            for combo in itertools.product(range(len(ops2)), repeat=n):
                yield {"params": {"listing": "sorted", "sweep2": list(combo)}, "steps": [head2] + [ops2[i] for i in combo]}


PROFILE = CrudProfile()
