"""Profiles: one per claimed property (operation mix + oracles)."""
import importlib

PROFILE_MODULES = {
    "crash": "crash",
    "finders": "finders",
    "last": "last",
    "crud": "crud",
    "derived": "derived",
    "history": "history",
    "values": "values",
    "paths": "paths",
    "algebra": "algebra",
    "getter": "getter",
    "versions": "versions",
}

PROPERTY_PROFILE = {
    "C17": "crash",
    "C11": "finders",
    "C09": "last",
    "C15": "crud",
    "C12": "derived",
    "C13": "history",
    "C14": "values",
    "C05": "paths",
    "C10": "algebra",
    "C16": "getter",
    "C18": "versions",
}

_cache = {}


def get_profile(name):
    name = PROPERTY_PROFILE.get(name, name)
    if name not in _cache:
        mod = importlib.import_module("." + PROFILE_MODULES[name], __name__)
        _cache[name] = mod.PROFILE
    return _cache[name]
