"""C05 -- Sid -> path -> Sid is the identity in every path configuration (DESIGN 5.11)."""
import json
import posixpath

from .. import x as X
from .base import gen_sid, Vocab, NAME_POOL
from .storebase import StoreProfile


class PathsProfile(StoreProfile):
    name = "paths"
    prop = "C05"
    names = NAME_POOL + ["x_y_z", "_", "a_b", "n" * 80, "long_" + "ab" * 60]     # and very long (legal) names
    rule = ("one case = one sid.path(c) or Sid(path=p, config=c) call at some position of a seeded history (random order, random "
            "first-touched configuration, cache capacity knob, restarts), checked for round trip, purity (same value at every "
            "position of the run and in a fresh twin process), injectivity over the run, root-relative equality between "
            "configurations, None for path-less types; distinct = distinct (Sid, configuration, spelling) triples")

    def evaluations(self, stats, runs):
        return stats.get("path_cases", 0)

    def params(self, rng, tier):
        p = super().params(rng, tier)
        p["n_ops"] = rng.randint(10, 30 if tier == "quick" else 60)
        p["capacity"] = rng.choice([4096, 64, 8, 2, 1])
        return p

    def setup(self, run):
        super().setup(run)
        run.scratch.update({"pathmap": {c: {} for c in run.m.configs}, "seen": {}, "twin": {}})

    def gen(self, run, i):
        rng, m = run.rng, run.m
        if i >= run.params["n_ops"]:
            return None
        vocab = self.vocab(run)
        pool = run.scratch.setdefault("value_pool", {})
        sids = run.scratch.setdefault("sids", [])
        q = run.scratch.setdefault("queue", [])
        if q:
            return q.pop(0)
        r = rng.random()
        if r < 0.05:
            return {"op": "restart"}
        if rng.random() < 0.04:
            # a symbolic link on disk: the folder of one Sid is a link to the folder of a sibling (a published version linked
            # to a work version). Paths are names: Sid(path=...) of the link's path is the link's Sid, not its target's.
            cands = []
            for t in vocab.usable_types():
                if not m.is_leaf_type(t) and all(m.has_path(t, c) for c in m.configs) and len(m.by_name[t].keys) >= 4:
                    cands.append(t)
            if cands:
                t = rng.choice(sorted(cands))
                a = gen_sid(rng, m, vocab, t, pool, reuse=0.5)
                b = gen_sid(rng, m, vocab, t, pool, reuse=0.9)
                if a and b and a != b and a.split("/")[:-1] == b.split("/")[:-1]:
                    c = rng.choice(m.configs)
                    sids.extend([a, b])
                    for x in (b, a):
                        q.append({"op": "roundtrip", "sid": x, "cfg": c, "other": c, "spell": "kw", "aspath": rng.random() < 0.5})
                    return {"op": "link", "target": a, "link": b, "cfg": c}
        if sids and r < 0.45:
            s = rng.choice(sids)
        else:
            kind = rng.random()
            if kind < 0.08:
                s = rng.choice(["foo/bar", "hamlet/zz", "x"])
            else:
                t = rng.choice(vocab.usable_types())
                s = gen_sid(rng, m, vocab, t, pool, reuse=0.5)
                if s is None:
                    return {"op": "restart"}
            sids.append(s)
        c = rng.choice(m.configs)
        spell = rng.choice(["pos", "kw", "default"]) if c == m.default_config else rng.choice(["pos", "kw"])
        # same string, several types: a free-form last value named like a closed value of a sibling type (a cache node
        # called 'abc' next to the cache file '.../abc'); both are asked, by uri, in one process
        if rng.random() < 0.2:
            cands = []
            for t in m.types:
                if t.keys and m.vocab(t.name, t.keys[-1])[0] == "free":
                    for t2 in m.types:
                        if t2.n == t.n and t2.name != t.name and t2.keys[:-1] == t.keys[:-1]:
                            v2 = vocab.values(t2.name, t2.keys[-1])
                            if v2:
                                cands.append((t.name, t2.name, v2))
            if cands:
                ta, tb, vals = rng.choice(sorted(cands))
                base = gen_sid(rng, m, vocab, tb, pool, reuse=0.5)
                if base and m.by_name[ta].accepts(base.split("/")):
                    sids.append(base)
                    forced = rng.choice([ta, tb])
                    return {"op": "path", "sid": base, "cfg": c, "spell": spell, "type": forced}
        if rng.random() < 0.5:
            return {"op": "path", "sid": s, "cfg": c, "spell": spell}
        return {"op": "roundtrip", "sid": s, "cfg": c, "other": rng.choice(m.configs), "spell": spell,
                "aspath": rng.random() < 0.5}

    def path_expr(self, s, c, spell, forced=None):
        S = X.sid((forced + ":" + s) if forced else s)
        if spell == "default":
            return X.meth(S, "path")
        if spell == "kw":
            return X.meth(S, "path", config=c)
        return X.meth(S, "path", c)

    def same_layout(self, run, tn, s, c, c2):
        """The 'differ only by the root' clause applies to configurations that share layout and vocabulary (the model's
        own template-formatted paths say so); a generated configuration may give a path config its own vocabulary."""
        m = run.m
        a, b = m.path_of(tn, m.fields(tn, s), c), m.path_of(tn, m.fields(tn, s), c2)
        if not a or not b:
            return False
        return a[len(m.roots(c)):] == b[len(m.roots(c2)):]

    def twin_obs(self, run, e):
        key = json.dumps(e, sort_keys=True)
        tw = run.scratch["twin"]
        if key not in tw:
            from ..executor import Executor
            k = run.knobs()
            k["capacity"] = 4096
            T = Executor(run.world.root, k)
            run.stats["forks"] += 1
            try:
                tw[key] = T.obs(e)
            finally:
                T.close()
        return tw[key]

    def apply(self, run, step):
        m = run.m
        op = step["op"]
        if op == "restart":
            run.start_epoch()
            return
        if op == "link":
            import os
            pa = m.path_of_sid(step["target"], step["cfg"])
            pb = m.path_of_sid(step["link"], step["cfg"])
            if pa and pb:
                ra, rb = run.world.real(pa), run.world.real(pb)
                os.makedirs(ra, exist_ok=True)
                os.makedirs(os.path.dirname(rb), exist_ok=True)
                if not os.path.lexists(rb):
                    os.symlink(ra, rb)
                    run.fired["symlinked_folder"] += 1
            return
        s, c = step["sid"], step["cfg"]
        run.stats["path_cases"] += 1
        tn = step.get("type") or m.natural_type(s)
        if step.get("type"):
            run.probes["uri_forced_same_string_other_type"] += 1
        e = self.path_expr(s, c, step["spell"], step.get("type"))
        obs = run.do(e)
        # never an exception; None for untyped Sids and types without a path template
        run.check(not X.is_exc(obs), "C05.path_raises", {"sid": s, "cfg": c, "spell": step["spell"], "got": obs})
        has = bool(tn) and m.has_path(tn, c)
        if not has:
            run.check(obs is None, "C05.path_should_be_none", {"sid": s, "cfg": c, "got": obs})
            return
        run.check(isinstance(obs, dict) and "~P" in obs, "C05.no_path_for_templated_type", {"sid": s, "cfg": c, "type": tn, "got": obs})
        p = obs["~P"]
        # purity: same (type, fields, c) -> same value, at every position, in every spelling, and in a fresh process
        seen = run.scratch["seen"]
        k = (m.uri(s, tn), c)
        if k in seen:
            run.check(seen[k] == p, "C05.path_not_pure", {"sid": s, "cfg": c, "now": p, "before": seen[k], "spell": step["spell"]})
        seen[k] = p
        fresh = self.twin_obs(run, e)
        run.check(fresh == obs, "C05.path_differs_from_fresh_process", {"sid": s, "cfg": c, "got": obs, "fresh": fresh})
        want = m.path_of(tn, m.fields(tn, s), c)
        run.check(p == want, "C05.path_vs_template", {"sid": s, "cfg": c, "got": p, "template_says": want})
        # injectivity over the run
        pm = run.scratch["pathmap"][c]
        if p in pm:
            run.check(pm[p] == m.uri(s, tn), "C05.two_sids_one_path", {"path": p, "cfg": c, "sid_a": pm[p], "sid_b": m.uri(s, tn)})
        pm[p] = m.uri(s, tn)
        # the other configuration's path differs only by the root
        for c2 in m.configs:
            if c2 != c and (m.uri(s, tn), c2) in seen and self.same_layout(run, tn, s, c, c2):
                r1, r2 = m.roots(c), m.roots(c2)
                p2 = seen[(m.uri(s, tn), c2)]
                run.check(p.startswith(r1) and p2.startswith(r2) and p[len(r1):] == p2[len(r2):], "C05.configs_differ_beyond_root",
                          {"sid": s, c: p, c2: p2})
                run.probes["both_configs_compared"] += 1
        run.case_mark(s, c, step["spell"])
        if op == "roundtrip" and not step.get("type"):
            # Sid(path=path(S, c), config=c) == S, whichever configuration was asked about this path before
            c2 = step["other"]
            if c2 != c:
                e0 = X.call("Sid", path=p, config=c2)
                o0 = run.do(e0)
                f0 = self.twin_obs(run, e0)
                run.check(o0 == f0, "C05.path_to_sid_differs_from_fresh_process", {"path": p, "cfg": c2, "got": o0, "fresh": f0})
                run.probes["other_config_asked_first"] += 1
            # the path is handed back as str or as the pathlib.Path that sid.path() returns (both are legal inputs)
            pv = X.call("Path", p) if step.get("aspath") else p
            e1 = X.call("Sid", path=pv, config=c) if step["spell"] != "pos" else X.call("Sid", None, None, None, pv, c)
            if step["spell"] == "default":
                e1 = X.call("Sid", path=pv)
            if step.get("aspath"):
                run.probes["roundtrip_with_pathlib_path"] += 1
            o1 = run.do(e1)
            run.check(isinstance(o1, dict) and "~S" in o1, "C05.path_to_sid_raises", {"path": p, "cfg": c, "got": o1})
            back = X.SidObs(o1)
            run.check(back.uri == m.uri(s, tn), "C05.roundtrip", {"sid": m.uri(s, tn), "cfg": c, "path": p, "back": back.uri})
            run.check(back.fields == list(m.fields(tn, s).items()), "C05.roundtrip_fields", {"sid": s, "back": back.fields})
            # the Sid that came back from the path is the same value: its path (default configuration, and each
            # configuration) is what the string-built Sid's is -- whichever configuration it was resolved in
            o2 = run.do(X.seq(X.meth(e1, "path"), X.meth(X.sid(s), "path"), X.meth(e1, "path", m.configs[0])))["~seq"]
            wantd = m.path_of(tn, m.fields(tn, s), m.default_config)
            want0 = m.path_of(tn, m.fields(tn, s), m.configs[0])
            got = [o.get("~P") if isinstance(o, dict) else o for o in o2]
            run.check(got == [wantd, wantd, want0], "C05.path_of_path_built_sid",
                      {"sid": s, "built_with": c, "got": got, "want": [wantd, wantd, want0]})


PROFILE = PathsProfile()
