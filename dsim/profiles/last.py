"""C09 -- the '>' (last) operator returns the greatest entry of each group (DESIGN 5.7)."""
from .. import x as X
from .base import gen_sid
from .storebase import StoreProfile
from .finders import answer

LAST_NAMES = ["bob", "bob-x", "bob.x", "bob+x", "bo", "alice", "Al_1", "a", "a-", "zed"]


def expected_last(star_uris, index):
    """One per distinct prefix before `index`: the entry whose remaining segments are greatest, segment-wise."""
    groups = {}
    for u in star_uris:
        s = u.split(":", 1)[1] if ":" in u else u
        segs = s.split("/")
        key = tuple(segs[:index])
        rest = segs[index:]
        if key not in groups or rest > groups[key][0]:
            groups[key] = (rest, u)
    return {v[1] for v in groups.values()}


class LastProfile(StoreProfile):
    name = "last"
    prop = "C09"
    names = LAST_NAMES
    rule = ("one case = one search with '>' (any position, optional second '>', '*', alias, '**' elsewhere) evaluated "
            "by FindInPaths x2, FindInList x2 and FindInAll against the same party's answer with '>' read as '*', or one "
            "sid.get_last(key) call; distinct = distinct (store state) marks and ('>' position, feature set) pairs")

    def evaluations(self, stats, runs):
        return stats.get("last_searches", 0) + stats.get("get_last_calls", 0)

    def params(self, rng, tier):
        p = super().params(rng, tier)
        p["crowd"] = rng.random() < 0.1
        p["n_entities"] = rng.randint(3, 10 if tier == "quick" else 18)
        p["n_ops"] = rng.randint(5, 12 if tier == "quick" else 30)
        p["capacity"] = rng.choice([4096, 4096, 64, 8])
        return p

    def gen_last_search(self, run, base):
        rng, m = run.rng, run.m
        tn = m.natural_type(base)
        t = m.by_name[tn]
        segs = base.split("/")
        n = len(segs)
        out = list(segs)
        feats = set()
        j = rng.randrange(0 if rng.random() < 0.1 else 1, n) if n > 1 else 0
        p_star = rng.choice([0.15, 0.4, 0.7])
        for i in range(n):
            if i != j and rng.random() < p_star:
                out[i] = "*"
                feats.add("star")
        out[j] = ">"
        if j + 1 < n and rng.random() < 0.2:
            out[rng.randrange(j + 1, n)] = ">"
            feats.add("second")
        if m.is_leaf_type(tn) and j != n - 1 and out[-1] != ">" and rng.random() < 0.25:
            al = [a for a in sorted(m.alias) if t.regex[-1].fullmatch(a)]
            if al:
                out[-1] = rng.choice(al)
                feats.add("alias")
        s = "/".join(out)
        if n > 3 and rng.random() < 0.2:
            # '**' right of the '>' keeps its position; left of it moves it (gated, counted)
            if j + 2 < n and rng.random() < 0.7:
                a = rng.randrange(j + 1, n - 1)
                b = rng.randrange(a + 1, n + 1)
            else:
                a = rng.randrange(1, max(2, j))
                b = min(n, a + 1)
            cand = out[:a] + ["**"] + out[b:]
            if ">" in cand:
                s = "/".join(cand)
                feats.add("dstar")
        return s, j, feats

    def gen(self, run, i):
        rng, m = run.rng, run.m
        if i == 0:
            run.scratch["uni"] = self.plan_universe(run, run.store.clone(), run.params["n_entities"], mirror=True, data_p=0.05)
        uni = run.scratch["uni"]
        if i < len(uni):
            return uni[i]
        if i - len(uni) >= run.params["n_ops"]:
            return None
        ents = run.store.listing(m.default_config)
        if not ents:
            return None
        r = rng.random()
        if r < 0.05:
            return {"op": "restart"}
        if r < 0.17:
            extra = self.plan_universe(run, run.store.clone(), 1, mirror=True, data_p=0.0)
            if extra:
                return extra[0]
        base = rng.choice(ents)
        if r < 0.40:
            tn = m.natural_type(base)
            keys = m.by_name[tn].keys
            if rng.random() < 0.2:
                base2 = gen_sid(rng, m, self.vocab(run), tn, run.scratch.get("value_pool"), reuse=0.7) or base
            else:
                base2 = base
            # also keys below the Sid's own level (get_with adds them)
            deeper = [k for t2 in m.types if t2.n == len(keys) + 1 and t2.keys[:-1] == keys
                      and m.basetype(t2.name) == m.basetype(tn) and t2.accepts((base2 + "/>").split("/"))
                      for k in [t2.keys[-1]]]
            key = rng.choice(keys + deeper[:1]) if rng.random() < 0.8 else None
            return {"op": "get_last", "sid": base2, "key": key}
        s, j, feats = self.gen_last_search(run, base)
        return {"op": "last", "s": s, "feats": sorted(feats), "pos": j}

    def apply(self, run, step):
        if self.apply_common(run, step):
            return
        if step["op"] == "last":
            self.check_last(run, step["s"])
            run.state_mark("lastfeat", step.get("feats"), step.get("pos"))
        elif step["op"] == "get_last":
            self.check_get_last(run, step["sid"], step.get("key"))
        else:
            raise ValueError(step["op"])

    def check_last(self, run, s):
        m = run.m
        run.stats["last_searches"] += 1
        star = s.replace(">", "*")
        uf = X.items(run.do(X.call("unfold_search", s)))
        if uf is None:
            run.stats["not_evaluable_unfold_raises"] += 1
            return
        forms = [(v["~S"][0], v["~S"][1]) for v in uf if isinstance(v, dict) and "~S" in v]
        if not forms:
            run.stats["unfolds_to_nothing"] += 1
        idx = {f[1].split("/").index(">") for f in forms if ">" in f[1].split("/")}
        if len(idx) > 1 or any(">" not in f[1].split("/") for f in forms):
            run.stats["gated_moving_position"] += 1
            return
        index = idx.pop() if idx else s.split("?")[0].split("/").index(">")
        fx = self.finder_exprs(run)
        got, exp = {}, {}
        for name in sorted(fx):
            a = answer(self.find(run, fx[name], s))
            b = answer(self.find(run, fx[name], star))
            if a[0] == "exc" and b[0] == "exc" and a[1] == b[1]:
                run.stats["not_evaluable_all_raise"] += 1
                return
            run.check(a[0] == "ok", "C09.party_raises", {"search": s, "party": name, "exc": a[1]})
            run.check(b[0] == "ok", "C09.party_raises_star", {"search": star, "party": name, "exc": b[1]})
            want = expected_last(b[1], index)
            run.check(len(a[1]) == len(set(a[1])), "C09.duplicates", {"search": s, "party": name, "got": a[1]})
            run.check(set(a[1]) == want, "C09.greatest_per_group",
                      {"search": s, "party": name[0], "index": index, "got": sorted(a[1]), "want": sorted(want),
                       "star_answer": sorted(b[1])[:12], "typed_searches": len(forms)})
            got[name] = set(a[1])
            if len(want) > 0:
                run.probes["nonempty_last"] += 1
            if len(b[1]) > len(want):
                run.probes["selection_was_needed"] += 1
                # non-trivial = the '>' really had to choose; distinct = (search, star answer)
                run.case_mark(s, sorted(b[1]))
        types = {f[0] for f in forms}
        for c in m.configs:
            if all(m.has_path(t, c) for t in types):
                run.check(got["P:" + c] == got["L:" + c], "C09.paths_vs_list",
                          {"search": s, "config": c, "paths": sorted(got["P:" + c]), "list": sorted(got["L:" + c])})
        routed = [(m.routing.get(t) or {}).get("finder") or {} for t in types]
        if all(r.get("class") == "FindInPaths" for r in routed):
            dc = m.default_config
            run.check(got["A"] == got["P:" + dc], "C09.all_vs_paths",
                      {"search": s, "all": sorted(got["A"]), "paths": sorted(got["P:" + dc]), "typed_searches": len(forms)})
            if len(forms) > 1:
                run.probes["multi_typed_last_on_FindInAll"] += 1

    def check_get_last(self, run, sid, key):
        m = run.m
        run.stats["get_last_calls"] += 1
        tn = m.natural_type(sid)
        a = [key] if key else []
        obs = run.do(X.meth(X.sid(sid), "get_last", *a))
        run.check(isinstance(obs, dict) and "~S" in obs, "C09.get_last_raises", {"sid": sid, "key": key, "got": obs})
        got = X.SidObs(obs)
        k = key or m.by_name[tn].keys[-1]
        # the corresponding search, built by the model: the Sid with that key's value replaced by (or extended with) '>'
        keys = m.by_name[tn].keys
        segs = sid.split("/")
        if k in keys:
            i = keys.index(k)
            search = "/".join(segs[:i] + [">"] + segs[i + 1:])
        else:
            search = sid + "/>"
            i = len(segs)
        star = search.replace(">", "*")
        # same applicability gate as for searches: the unfolded forms must carry '>' at one position
        uf = X.items(run.do(X.call("unfold_search", search)))
        forms = [v["~S"][1].split("/") for v in (uf or []) if isinstance(v, dict) and "~S" in v]
        if uf is None or any(">" not in f for f in forms) or len({f.index(">") for f in forms}) > 1:
            run.stats["gated_moving_position"] += 1
            return
        b = answer(self.find(run, X.call("FindInAll"), star))
        if b[0] != "ok":
            run.stats["not_evaluable_all_raise"] += 1
            return
        want = expected_last(b[1], i)
        if not want:
            run.check(got.uri == "", "C09.get_last_should_be_empty", {"sid": sid, "key": key, "got": got.uri})
        else:
            run.check(len(want) == 1, "C09.model_group", {"want": sorted(want)})
            run.check(got.uri == next(iter(want)), "C09.get_last", {"sid": sid, "key": key, "got": got.uri,
                                                                  "want": sorted(want), "star_answer": sorted(b[1])[:12]})
            run.probes["get_last_nonempty"] += 1
            if len(b[1]) > 1:
                run.case_mark("get_last", sid, key, sorted(b[1]))


PROFILE = LastProfile()
