"""C12 -- exists / find_one / children / siblings agree with find (DESIGN 5.6)."""
from .. import x as X
from .base import gen_sid
from .storebase import StoreProfile, gen_search, typed_prefixes
from .finders import answer


class DerivedProfile(StoreProfile):
    name = "derived"
    prop = "C12"
    rule = ("one case = one (finder, search) quintuple exists/find_one(as_sid both)/find(as_sid both) or one concrete Sid's "
            "exists()/children()/siblings() evaluated on a reached store state (histories with creates and restarts in "
            "between); non-trivial = something was found; distinct = distinct (call kind, argument, answer)")

    def evaluations(self, stats, runs):
        return stats.get("finder_cases", 0) + stats.get("sid_cases", 0)

    def params(self, rng, tier):
        p = super().params(rng, tier)
        p["crowd"] = rng.random() < 0.1
        p["n_entities"] = rng.randint(2, 9 if tier == "quick" else 16)
        p["n_ops"] = rng.randint(6, 14 if tier == "quick" else 40)
        p["capacity"] = rng.choice([4096, 4096, 64, 8])
        return p

    def gen(self, run, i):
        rng, m = run.rng, run.m
        if i == 0:
            run.scratch["uni"] = self.plan_universe(run, run.store.clone(), run.params["n_entities"], mirror=True, data_p=0.05)
        uni = run.scratch["uni"]
        if i < len(uni):
            return uni[i]
        if i - len(uni) >= run.params["n_ops"]:
            return None
        ents = run.store.listing(m.default_config)
        if not ents:
            return None
        q = run.scratch.setdefault("queue", [])
        if q:
            return q.pop(0)
        r = rng.random()
        if r < 0.06:
            return {"op": "restart"}
        if r < 0.22:
            extra = self.plan_universe(run, run.store.clone(), 1, mirror=True, data_p=0.0)
            if extra:
                return extra[0]
        base = rng.choice(ents)
        if rng.random() < 0.06:
            # in a new process: a search with ',' alternatives at a closed level (or an alias), then the Sids of each
            # alternative alone (exists / children / siblings unfold the plain search for the first time)
            segs = base.split("/")
            tnb = m.natural_type(base)
            cands = []
            if tnb:
                kb = m.by_name[tnb].keys
                for j in range(1, len(segs)):
                    v = m.vocab(tnb, kb[j])
                    if v[0] == "closed":
                        others = [x for x in v[1] if x != segs[j] and x not in m.alias][:2]
                        if others:
                            cands.append((j, [segs[j]] + others))
            if cands:
                j, alts = rng.choice(cands)
                tail = ["*"] if j < len(segs) - 1 else []
                s_or = "/".join(segs[:j] + [",".join(alts)] + tail)
                q += [{"op": "five", "s": s_or, "party": rng.choice(["L:" + m.default_config, "A", "P:" + m.default_config]),
                       "feats": ["comma", "episode"]}]
                for a in alts:
                    q.append({"op": "sid", "sid": "/".join(segs[:j] + [a])})
                run.probes["alternatives_then_each_sid_alone"] += 1
                return {"op": "restart"}
        if run.params.get("crowd") and r < 0.45:
            from .base import CROWD_NAMES
            cs = set(CROWD_NAMES)
            crowd = [e for e in ents if cs & set(e.split("/")[-1:])]
            if crowd:
                e = rng.choice(crowd)
                unused = [c for c in CROWD_NAMES[:105] if e.rsplit("/", 1)[0] + "/" + c not in ents] if "/" in e else []
                if unused:
                    nb = e.rsplit("/", 1)[0] + "/" + rng.choice(unused)
                    if m.natural_type(nb) == m.natural_type(e) and all(run.store.can_create(c, nb) == "ok" for c in m.configs):
                        # the crowded level is listed, a new sibling is created, the level is listed again
                        q += [{"op": "sid", "sid": e}, {"op": "mirror", "sid": nb, "data": None}, {"op": "sid", "sid": nb},
                              {"op": "sid", "sid": e}, {"op": "sid", "sid": e.rsplit("/", 1)[0]}]
                        run.probes["crowd_create_episodes"] += 1
                        return q.pop(0)
        if r < 0.60:
            kind = rng.random()
            tn = m.natural_type(base)
            if kind < 0.25:
                base = gen_sid(rng, m, self.vocab(run), tn, run.scratch.get("value_pool"), reuse=0.7) or base
            elif kind < 0.45:
                segs = base.split("/")
                base = "/".join(segs[: rng.randint(1, len(segs))])
            elif kind < 0.55:
                # one level below: constant-backed or not-yet-existing children
                t = [t2 for t2 in m.types if t2.n == len(base.split("/")) + 1]
                if t:
                    t2 = rng.choice(t)
                    vals = self.vocab(run).values(t2.name, t2.keys[-1]) or ["x"]
                    base = base + "/" + rng.choice(vals)
            elif kind < 0.6:
                base = rng.choice(["foo/bar", "hamlet/x", "", "hamlet/a/char/bob/zzz"])
            # asked before it exists, created, asked again: the answers must track the change
            if (m.natural_type(base) and rng.random() < 0.5 and all(run.store.can_create(c, base) == "ok" for c in m.configs)
                    and "." not in base.split("/")[-1]):
                q += [{"op": "mirror", "sid": base, "data": None}, {"op": "sid", "sid": base},
                      {"op": "sid", "sid": base.rsplit("/", 1)[0]}]
                run.probes["asked_created_asked_again"] += 1
            return {"op": "sid", "sid": base}
        if rng.random() < 0.15:
            extra = typed_prefixes(m, ents)
            if extra:
                base = rng.choice(extra)
        if not m.natural_type(base):
            base = rng.choice(ents)
        s, feats = gen_search(rng, m, self.vocab(run), base, simple=rng.random() < 0.3, allow_last=rng.random() < 0.2)
        if rng.random() < 0.1 and len(base.split("/")) > 2:
            # '>' followed by wildcards only: several found Sids share the last value (ties among the "last" ones)
            segs = base.split("/")
            k = rng.randrange(1, len(segs) - 1)
            s = "/".join(segs[:k] + [">"] + ["*"] * (len(segs) - k - 1))
            feats = {"last", "last_then_stars"}
            run.probes["last_then_stars"] += 1
        party = rng.choice(["P:" + m.default_config, "P:" + m.configs[-1], "L:" + m.default_config, "A", "A"])
        if rng.random() < 0.08:
            party = "J:" + m.default_config      # a list that also holds entries conforming to no template
        return {"op": "five", "s": s, "party": party, "feats": sorted(feats)}

    def apply(self, run, step):
        if self.apply_common(run, step):
            return
        if step["op"] == "five":
            self.check_five(run, step["party"], step["s"])
        elif step["op"] == "sid":
            self.check_sid(run, step["sid"])
        else:
            raise ValueError(step["op"])

    def check_five(self, run, party, s):
        run.stats["finder_cases"] += 1
        if party.startswith("J:"):
            # FindInList over foreign content: the entities, preceded by copies of some of them with one segment replaced
            # by a word outside every vocabulary (mostly untyped strings that the glob of a '*' search still matches).
            # The relations between find / exists / find_one / as_sid are about whatever find yields.
            items = run.store.listing(party.split(":", 1)[1])
            junk = []
            for k, e in enumerate(items[:4]):
                segs = e.split("/")
                j = 1 + (k + len(segs)) % (len(segs) - 1) if len(segs) > 1 else 0
                segs[j] = "zz9 junk"
                junk.append("/".join(segs))
            fx = X.call("FindInList", junk + items)
            run.probes["findinlist_with_foreign_entries"] += 1
        else:
            fx = self.finder_exprs(run).get(party)
        if fx is None:
            return
        run.do(fx, store="F")
        F = X.ref("F")
        plain = s.split("?")[0].replace(">", "*")
        o = run.do(X.seq(X.meth(F, "find", plain),
                         X.meth(F, "find", s), X.meth(F, "find", s, as_sid=False), X.meth(F, "exists", s),
                         X.meth(F, "find_one", s), X.meth(F, "find_one", s, as_sid=False),
                         X.meth(F, "find", s, True), X.meth(F, "find_one", s, True), X.meth(F, "exists", s),
                         X.meth(F, "find", plain)))["~seq"]
        plain0, found, strings, exists, one, one_str, found2, one2, _ex2, plain1 = o
        # the same instance answers a plain search identically before and after the (partially consumed) derived calls
        run.check(answer(plain0) == answer(plain1), "C12.find_differs_after_derived_calls",
                  {"party": party, "search": plain, "derived_on": s, "before": answer(plain0), "after": answer(plain1)})
        a = answer(found)
        b = X.items(strings)
        if a[0] == "exc":
            # every derived call must then fail the same way (not evaluable), never answer something
            same = X.exc_name(strings) == a[1] and X.exc_name(exists) == a[1] and X.exc_name(one) == a[1]
            run.check(same, "C12.find_raises_but_derived_answers", {"party": party, "search": s, "find": a[1],
                                                                   "exists": exists, "find_one": one})
            run.stats["not_evaluable_all_raise"] += 1
            return
        uris = a[1]
        sids = [X.SidObs(v) for v in X.items(found)]
        run.check(b is not None and all(isinstance(v, str) for v in b), "C12.as_sid_false_not_strings",
                  {"party": party, "search": s, "got": strings})
        run.check(b == [v.string for v in sids], "C12.as_sid_false_differs",
                  {"party": party, "search": s, "strings": b, "sids": [v.string for v in sids]})
        run.check(exists is (len(uris) > 0), "C12.exists_vs_find", {"party": party, "search": s, "exists": exists, "found": uris[:6]})
        run.check(answer(found2) == a, "C12.find_positional_as_sid", {"party": party, "search": s})
        if uris:
            run.check(isinstance(one, dict) and "~S" in one and X.SidObs(one).string == sids[0].string,
                      "C12.find_one_vs_find", {"party": party, "search": s, "find_one": one, "first": sids[0].uri, "found": uris[:6]})
            run.check(one_str == sids[0].string, "C12.find_one_str_vs_find", {"party": party, "search": s, "find_one": one_str, "first": sids[0].string})
            run.case_mark("five", party, s, uris)
        else:
            run.check(isinstance(one, dict) and "~S" in one and X.SidObs(one).uri == "", "C12.find_one_empty",
                      {"party": party, "search": s, "find_one": one})
            run.check(one_str is None, "C12.find_one_str_empty", {"party": party, "search": s, "find_one": one_str})
        run.check(one2 == one, "C12.find_one_positional", {"party": party, "search": s})
        # the same agreement when the search is handed over as a Sid OBJECT (the API accepts both); the object form
        # is its own search (Sid() may rewrite a string), so it is compared with itself only
        So = X.sid(s)
        oo = run.do(X.seq(X.meth(F, "find", So), X.meth(F, "exists", So), X.meth(F, "find_one", So, as_sid=False)))["~seq"]
        fa = answer(oo[0])
        if fa[0] == "ok":
            run.check(oo[1] is (len(fa[1]) > 0), "C12.exists_vs_find_sid_object",
                      {"party": party, "search": s, "exists": oo[1], "found": fa[1][:6]})
            first = X.items(oo[0])[0]["~S"][1] if fa[1] else None
            run.check(oo[2] == first, "C12.find_one_vs_find_sid_object",
                      {"party": party, "search": s, "find_one": oo[2], "first": first})
            run.probes["sid_object_searches"] += 1

    def check_sid(self, run, sid):
        m, st = run.m, run.store
        run.stats["sid_cases"] += 1
        S = X.sid(sid)
        o = run.do(X.seq(X.meth(S, "exists"), X.meth(S, "children"), X.meth(S, "siblings"),
                         X.meth(X.call("FindInAll"), "find", sid), X.meth(S, "is_leaf")))["~seq"]
        exists, children, siblings, found, is_leaf = o
        tn = m.natural_type(sid)
        if not tn:
            run.check(exists is False, "C12.untyped_exists", {"sid": sid, "got": exists})
            run.check(X.uris(children) == [], "C12.untyped_children", {"sid": sid, "got": children})
            run.check(X.uris(siblings) == [], "C12.untyped_siblings", {"sid": sid, "got": siblings})
            return
        # exists() == membership (FindInAll existence model) == find yields something
        fa = answer(found)
        if fa[0] == "ok":
            run.check(exists is (len(fa[1]) > 0), "C12.sid_exists_vs_find", {"sid": sid, "exists": exists, "found": fa[1]})
        typed = st._find_all_typed(tn, sid)
        if typed is not None:
            run.check(exists is (m.uri(sid, tn) in typed), "C12.sid_exists_vs_model",
                      {"sid": sid, "exists": exists, "model": sorted(typed)})
        # children == existing Sids whose parent is the Sid
        ch = X.uris(children)
        run.check(ch is not None, "C12.children_raises", {"sid": sid, "got": children})
        if m.is_leaf_type(tn):
            run.check(ch == [], "C12.leaf_has_children", {"sid": sid, "got": ch})
        else:
            want = st.find_all_simple(sid + "/*")
            if want is not None:
                run.check(set(ch) == want and len(ch) == len(set(ch)), "C12.children_vs_model",
                          {"sid": sid, "got": sorted(ch), "want": sorted(want)})
            for u in ch:
                s2 = u.split(":", 1)[1] if ":" in u else u
                run.check(s2.rsplit("/", 1)[0] == sid, "C12.child_of_other_parent", {"sid": sid, "child": u})
        # siblings == existing Sids sharing its parent
        sb = X.uris(siblings)
        run.check(sb is not None, "C12.siblings_raises", {"sid": sid, "got": siblings})
        if "/" not in sid:
            # the root level: the existing Sids of that level (a one-key Sid is its own parent)
            want = st.find_all_simple("*")
            if want is not None:
                run.check(set(sb) == want, "C12.siblings_vs_model", {"sid": sid, "got": sorted(sb), "want": sorted(want)})
        if "/" in sid:
            par = sid.rsplit("/", 1)[0]
            want = st.find_all_simple(par + "/*")
            if want is not None:
                run.check(set(sb) == want and len(sb) == len(set(sb)), "C12.siblings_vs_model",
                          {"sid": sid, "got": sorted(sb), "want": sorted(want)})
            if typed is not None and m.uri(sid, tn) in typed:
                run.check(m.uri(sid, tn) in set(sb), "C12.existing_sid_not_its_own_sibling", {"sid": sid, "got": sorted(sb)})
        # whatever exists (file-system backed) has an existing parent, when the parent level has a source
        f = (m.routing.get(tn) or {}).get("finder") or {}
        if f.get("class") == "FindInPaths" and st.exists(m.default_config, sid) and "/" in sid:
            par = sid.rsplit("/", 1)[0]
            ptn = m.natural_type(par)
            pf = (m.routing.get(ptn) or {}).get("finder") if ptn else None
            if pf and (pf.get("class") == "FindInConstants" or m.has_path(ptn, m.default_config)):
                o = run.do(X.meth(X.sid(par), "exists"))
                run.check(o is True, "C12.existing_has_no_existing_parent", {"sid": sid, "parent": par, "got": o})
                run.probes["parent_exists_checked"] += 1
        if exists is True:
            run.case_mark("sid", sid, sorted(ch), sorted(sb))


PROFILE = DerivedProfile()
