"""C10 -- search results obey the algebra of the search syntax (DESIGN 5.8).

Five rewrite relations between two (or more) real answers of the same finder on the same reached store
state; no duplicates; every result typed and matching the path part of the search by a reference matcher.
"""
from .. import x as X
from .base import gen_sid
from .storebase import StoreProfile, gen_search, typed_prefixes
from .finders import answer

import re
QUERY_SAFE = re.compile(r"^[A-Za-z0-9_.\-]+$")
RULES = ["comma", "alias", "alias_filter", "dstar", "filter", "literal"]


def ref_match(m, search_path, string):
    """Reference matcher for the path part of a search: '*' any segment, ',' alternatives, alias members in
    the last segment, one '**' = any number (>= 0) of segments."""
    pat = search_path.split("/")
    segs = string.split("/")

    def seg_ok(p, s, last):
        for alt in p.split(","):
            alt = alt.strip()
            if alt in ("*", ">"):
                return True
            if last and alt in m.alias and s in m.alias[alt]:
                return True
            if alt == s:
                return True
        return False

    if "**" in pat:
        i = pat.index("**")
        head, tail = pat[:i], pat[i + 1:]
        if len(segs) < len(head) + len(tail):
            return False
        ok = all(seg_ok(p, s, False) for p, s in zip(head, segs[: len(head)]))
        tsegs = segs[len(segs) - len(tail):] if tail else []
        ok = ok and all(seg_ok(p, s, j == len(tail) - 1) for j, (p, s) in enumerate(zip(tail, tsegs)))
        return ok
    if len(pat) != len(segs):
        return False
    return all(seg_ok(p, s, j == len(pat) - 1) for j, (p, s) in enumerate(zip(pat, segs)))


class AlgebraProfile(StoreProfile):
    name = "algebra"
    prop = "C10"
    rule = ("one case = one (search, derived searches) instance of one of the rewrite rules (comma list, alias, alias inside "
            "an ext filter, '**', appended filter at a wildcard position, literal for '*') answered by one finder party on a "
            "reached store state (with and without junk); non-trivial = the left-hand answer is non-empty; distinct = distinct "
            "(rule, party kind, search, answer)")

    def evaluations(self, stats, runs):
        return stats.get("relations", 0)

    def params(self, rng, tier):
        p = super().params(rng, tier)
        p["crowd"] = rng.random() < 0.1
        p["n_entities"] = rng.randint(3, 10 if tier == "quick" else 16)
        p["n_ops"] = rng.randint(6, 14 if tier == "quick" else 36)
        p["junk"] = rng.random() < 0.4
        p["capacity"] = rng.choice([4096, 4096, 64, 8])
        return p

    # ------------------------------------------------------------------ generation
    def gen(self, run, i):
        rng, m = run.rng, run.m
        if i == 0:
            run.scratch["uni"] = self.plan_universe(run, run.store.clone(), run.params["n_entities"], mirror=True, data_p=0.05)
        uni = run.scratch["uni"]
        if i < len(uni):
            return uni[i]
        if i - len(uni) >= run.params["n_ops"]:
            return None
        ents = run.store.listing(m.default_config)
        if not ents:
            return None
        r = rng.random()
        if r < 0.05:
            return {"op": "restart"}
        if r < 0.13:
            extra = self.plan_universe(run, run.store.clone(), 1, mirror=True, data_p=0.0)
            if extra:
                return extra[0]
        if r < 0.25 and run.params["junk"]:
            st = self.plan_junk(run, run.store)
            if st:
                return st
        for _ in range(8):
            pool = ents
            if rng.random() < 0.12:
                pool = typed_prefixes(m, ents) or ents
            elif run.params.get("crowd") and rng.random() < 0.5:
                from .base import CROWD_NAMES
                cs = set(CROWD_NAMES)
                pool = [e for e in ents if cs & set(e.split("/"))] or ents     # the crowded directory's entities
            elif rng.random() < 0.25:
                # entities with a free field that only lives in the file name (where globbing can confuse values)
                v = self.vocab(run)
                fn = [e for e in ents if any(v.file_name_only(m.natural_type(e), k) and m.vocab(m.natural_type(e), k)[0] == "free"
                                             for k in m.by_name[m.natural_type(e)].keys)]
                pool = fn or ents
            st = self.gen_relation(run, rng.choice(pool))
            if st:
                return st
        return {"op": "restart"}

    def gen_relation(self, run, base):
        rng, m = run.rng, run.m
        vocab = self.vocab(run)
        if rng.random() < 0.15:
            base = gen_sid(rng, m, vocab, m.natural_type(base), run.scratch.get("value_pool"), reuse=0.7) or base
        tn = m.natural_type(base)
        t = m.by_name[tn]
        segs = base.split("/")
        n = len(segs)
        rule = rng.choice(RULES)
        if run.params.get("crowd") and rng.random() < 0.4:
            rule = "comma"
        party = rng.choice(["P:" + m.default_config, "P:" + m.configs[-1], "L:" + m.default_config, "A", "A"])
        # a host search: some segments starred
        host = list(segs)
        p_star = rng.choice([0.2, 0.5, 0.8])
        for j in range(n):
            if rng.random() < p_star:
                host[j] = "*"
        leaf = m.is_leaf_type(tn)
        # one time in four the instance that answers the relation has served abandoned searches just before
        st = {"op": "rel", "rule": rule, "party": party, "pre": rng.random() < 0.25}
        if rule == "comma":
            j = rng.randrange(n)
            vals = [v for v in (vocab.values(tn, t.keys[j]) or []) if v != segs[j]]
            # a list of two values where one is the other plus the file-name separator, on a field that only lives
            # in the file name: the alternatives' glob patterns overlap
            fno = [i for i in range(n) if vocab.file_name_only(tn, t.keys[i])]
            partner = None
            if fno and rng.random() < 0.6:
                j = rng.choice(fno)
                for sp in vocab.seps:
                    if sp in segs[j]:
                        partner = segs[j].rsplit(sp, 1)[0]
                    elif segs[j] + sp + "b" in vocab.pair_names:
                        partner = segs[j] + sp + "b"
                    elif segs[j] + sp + "y" in vocab.pair_names:
                        partner = segs[j] + sp + "y"
                vals = [v for v in (vocab.values(tn, t.keys[j]) or []) if v != segs[j]]
            if not vals:
                return None
            frees = [i for i in range(n) if m.vocab(tn, t.keys[i])[0] == "free"]
            if frees and rng.random() < (0.25 if run.params.get("crowd") else 0.03):
                # a very wide list: the search unfolds into dozens of typed searches
                from .base import CROWD_NAMES
                j = rng.choice(frees)
                # prefer values that exist (a crowded directory), so that a lost alternative loses results
                ents = run.store.listing(m.default_config)
                have = sorted({e.split("/")[j] for e in ents if m.natural_type(e) and len(e.split("/")) > j
                               and e.split("/")[:j] == segs[:j]} - {segs[j]})
                rng.shuffle(have)
                k = rng.randint(22, 34)
                alts = [segs[j]] + have[:k]
                if len(alts) <= k:
                    alts += rng.sample([c for c in CROWD_NAMES[:100] if c not in alts], k + 1 - len(alts))
                for q in range(j + 1, n):
                    if rng.random() < 0.7:
                        host[q] = "*"      # more types accept the string: more typed searches per alternative
                rng.shuffle(alts)
                h = list(host)
                h[j] = ",".join(alts)
                st["s"] = "/".join(h)
                st["parts"] = ["/".join(h[:j] + [a] + h[j + 1:]) for a in alts]
                run.probes["wide_comma_lists"] += 1
                return st
            if partner and partner != segs[j]:
                run.probes["comma_near_miss_pairs"] += 1
                alts = [segs[j], partner]
                if j > 0 and rng.random() < 0.7:
                    host[j - 1] = "*"      # the field that follows it in the file name (state) as a wildcard
            else:
                alts = [segs[j]] + rng.sample(vals, rng.randint(1, min(2, len(vals))))
            if rng.random() < 0.06:
                # overlapping alternatives: a '*' next to literals (the union is the '*' answer, each result once)
                alts = alts[:2] + ["*"]
                run.probes["overlapping_alternatives"] += 1
            rng.shuffle(alts)
            h = list(host)
            h[j] = ",".join(alts)
            st["s"] = "/".join(h)
            st["parts"] = ["/".join(h[:j] + [a] + h[j + 1:]) for a in alts]
            return st
        if rule in ("alias", "alias_filter"):
            if not leaf:
                return None
            al = [a for a in sorted(m.alias) if t.regex[-1].fullmatch(a)]
            if not al:
                return None
            a = rng.choice(al)
            # an earlier segment that CONTAINS the text of an alias ('lighthouse' holds 'hou') stays literal, with that alias
            hits = [x for x in al if any(x in seg for seg in segs[:-1])]
            if hits and rng.random() < 0.8:
                a = rng.choice(hits)
                for jj in range(n - 1):
                    if a in segs[jj]:
                        host[jj] = segs[jj]
                run.probes["alias_text_inside_an_earlier_segment"] += 1
            members = sorted(set(m.alias[a]))
            if rule == "alias":
                h = host[:-1]
                st["s"] = "/".join(h + [a])
                st["parts"] = ["/".join(h + [x]) for x in members]
            else:
                h = host[:-1] + ["*"]
                k = t.keys[-1]
                st["s"] = "/".join(h) + "?%s=%s" % (k, a)
                st["parts"] = ["/".join(h) + "?%s=%s" % (k, x) for x in members]
            return st
        if rule == "dstar":
            if n < 3:
                return None
            i = rng.randrange(1, n)
            j = rng.randrange(i, n + 1)
            h = host[:i] + ["**"] + host[j:]
            tail = host[j:]
            st["s"] = "/".join(h)
            maxn = max(tt.n for tt in m.types)
            parts = []
            for k in range(0, maxn - (i + len(tail)) + 1):
                parts.append("/".join(host[:i] + ["*"] * k + tail))
            st["parts"] = parts
            return st
        if rule == "filter":
            stars = [j for j in range(n) if host[j] == "*"]
            dstar = rng.random() < 0.25 and n > 3
            if dstar:
                i = rng.randrange(1, n - 1)
                h = host[:i] + ["**"]
                keys = [k for k in t.keys[i:]]
                if not keys:
                    return None
                k = rng.choice(keys)
            else:
                if not stars:
                    j = rng.randrange(n)
                    host[j] = "*"
                    stars = [j]
                j = rng.choice(stars)
                h = host
                k = t.keys[j]
            # URL metacharacters ('+' decodes to a space ...) are outside the query family (see C02's quantifier)
            vals = [x for x in (vocab.values(tn, k) or []) if QUERY_SAFE.match(x)]
            if not vals:
                return None
            v = segs[t.keys.index(k)] if rng.random() < 0.6 else rng.choice(vals)
            if not QUERY_SAFE.match(v):
                v = rng.choice(vals)
            st["s"] = "/".join(h)
            st["key"] = k
            st["value"] = v
            st["filtered"] = "/".join(h) + "?%s=%s" % (k, v)
            return st
        if rule == "literal":
            if leaf and rng.random() < 0.25:
                # the '*' at the extension of an existing file, everything before it literal: the typed searches of the
                # sibling file types (several of them share one directory, hence one glob pattern) all run in one call
                host = list(segs)
                host[-1] = "*"
                for jj in range(1, n - 1):
                    if rng.random() < 0.2:
                        host[jj] = "*"
                run.probes["literal_rule_at_the_extension"] += 1
            stars = [j for j in range(n) if host[j] == "*"]
            if not stars:
                j = rng.randrange(n)
                host[j] = "*"
                stars = [j]
            j = rng.choice(stars) if host[-1] != "*" or rng.random() < 0.5 else n - 1
            vals = vocab.values(tn, t.keys[j]) or []
            v = segs[j] if rng.random() < 0.7 or not vals else rng.choice(vals)
            if "_" in segs[j].strip("_") and rng.random() < 0.5:
                v = segs[j].rsplit("_", 1)[0]      # near miss: an existing value cut at the filename separator
            st["s"] = "/".join(host)
            st["pos"] = j
            st["value"] = v
            st["narrowed"] = "/".join(host[:j] + [v] + host[j + 1:])
            return st
        return None

    def constant_level(self, run, s):
        uf = X.items(run.do(X.call("unfold_search", s)))
        types = {v["~S"][0] for v in (uf or []) if isinstance(v, dict) and "~S" in v}
        return any(((run.m.routing.get(t) or {}).get("finder") or {}).get("class") == "FindInConstants" for t in types)

    # ------------------------------------------------------------------ execution
    def apply(self, run, step):
        if self.apply_common(run, step):
            return
        if step["op"] != "rel":
            raise ValueError(step["op"])
        m = run.m
        run.stats["relations"] += 1
        fx = self.finder_exprs(run).get(step["party"])
        if fx is None:
            return
        run.do(fx, store="F")
        F = X.ref("F")
        rule = step["rule"]
        s = step["s"]
        rhs = step.get("parts") or [step.get("filtered") or step.get("narrowed")]
        if step.get("pre"):
            run.do(X.seq(X.meth(F, "find_one", s), X.meth(F, "exists", rhs[0]), X.take(X.meth(F, "find", s), 1, keep="pre_gen")))
            run.probes["relation_on_instance_with_abandoned_searches"] += 1
        obs = run.do(X.seq(*([X.meth(F, "find", s)] + [X.meth(F, "find", q) for q in rhs])))["~seq"]
        lhs = answer(obs[0])
        parts = [answer(o) for o in obs[1:]]
        excs = {a[1] for a in [lhs] + parts if a[0] == "exc"}
        if lhs[0] == "exc" and all(p[0] == "exc" for p in parts) and len(excs) == 1:
            run.stats["not_evaluable_all_raise"] += 1
            return
        det = {"rule": rule, "party": step["party"][0], "search": s}
        run.check(lhs[0] == "ok", "C10.search_raises", dict(det, exc=lhs[1]))
        for q, p in zip(rhs, parts):
            run.check(p[0] == "ok", "C10.derived_search_raises", dict(det, derived=q, exc=p[1]))
        L = lhs[1]
        run.check(len(L) == len(set(L)), "C10.duplicates", dict(det, got=L))
        sids = [X.SidObs(v) for v in X.items(obs[0])]
        for v in sids:
            run.check(bool(v.type), "C10.untyped_result", dict(det, result=v.uri))
            if "?" not in s:   # a query may overlay any key and deepen the search: only the bare path part is matched
                run.check(ref_match(m, s, v.string), "C10.result_does_not_match_search", dict(det, result=v.uri))
        Ls = set(L)
        if rule in ("comma", "alias", "alias_filter"):
            U = set()
            for p in parts:
                U |= set(p[1])
            run.check(Ls == U, "C10.%s_is_not_the_union" % rule,
                      dict(det, parts=rhs, only_whole=sorted(Ls - U), only_parts=sorted(U - Ls)))
        elif rule == "dstar":
            # "a leaf type (one ending in the configured leaf key)": the leaf key is the one configured for the
            # basetype of the part before '**' (with one leaf key per basetype, a root above the basetype level
            # -- '*', 'hamlet' -- has the project's leaf key: the permissive reading, see DESIGN 12.3)
            root = s.split("/**")[0]
            rt = m.natural_type(root)
            lk = m.leaf_keys.get(m.basetype(rt)) if rt else None
            U = set()
            for p in parts:
                U |= {u for u in p[1] if ":" in u and u.split(":", 1)[0] in m.by_name
                      and m.by_name[u.split(":", 1)[0]].keys[-1] == lk}
            run.check(Ls == U, "C10.dstar_is_not_the_union_of_levels",
                      dict(det, parts=rhs, only_dstar=sorted(Ls - U), only_levels=sorted(U - Ls)))
        elif rule in ("filter", "literal") and step["party"] == "A" and self.constant_level(run, s):
            # FindInAll answers constant-backed levels from the constants: a concrete Sid of such a level "exists"
            # whatever its parent, a starred one is answered from the existing parents (documented behaviour, the
            # carve-out of C11). Selecting by value is not a relation between those two answers: gated, counted.
            run.stats["gated_constant_backed_level"] += 1
            return
        elif rule == "filter":
            # applicability gate: the key must be owned by every type the search unfolds to
            uf = X.items(run.do(X.call("unfold_search", s)))
            types = {v["~S"][0] for v in (uf or []) if isinstance(v, dict) and "~S" in v}
            k, val = step["key"], step["value"]
            if not types or any(k not in m.by_name[t].keys for t in types if t in m.by_name):
                run.stats["gated_filter_key_not_owned"] += 1
                return
            want = {v.uri for v in sids if dict(v.fields).get(k) == val}
            got = set(parts[0][1])
            run.check(got == want, "C10.filter_is_not_a_selection",
                      dict(det, filtered=step["filtered"], extra=sorted(got - want), missing=sorted(want - got)))
        elif rule == "literal":
            j, val = step["pos"], step["value"]
            want = {v.uri for v in sids if v.string.split("/")[j] == val}
            got = set(parts[0][1])
            run.check(got == want, "C10.literal_is_not_the_subset",
                      dict(det, narrowed=step["narrowed"], extra=sorted(got - want), missing=sorted(want - got)))
        if Ls:
            run.probes["nonempty:" + rule] += 1
            run.case_mark(rule, step["party"][0], s, sorted(Ls))


PROFILE = AlgebraProfile()
