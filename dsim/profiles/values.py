"""C14 -- Sids are immutable values: equal means same uri, and nothing can alter one (DESIGN 5.2)."""
import json

from .. import x as X
from .base import gen_sid, NAME_POOL
from .storebase import StoreProfile, gen_search

POOL_MAX = 24


class ValuesProfile(StoreProfile):
    name = "values"
    prop = "C14"
    names = NAME_POOL + ["old king", "a b c", " lead"]     # and free-form values with blanks (legal: '[^/]*')
    rule = ("one case = one public operation (or mutation attempt on a returned container) on a Sid held by the client across a "
            "seeded history, followed by the invariant pass over the whole pool (string, type, fields, uri, hash, str, repr, len, "
            "bool of every held Sid equal to its snapshot at creation; a re-built same-string Sid equal to the first one; "
            "eq/hash/order/set/dict laws on all pairs); distinct = distinct (operation, target uri) pairs")

    def evaluations(self, stats, runs):
        return stats.get("ops_checked", 0)

    def params(self, rng, tier):
        p = super().params(rng, tier)
        p["n_ops"] = rng.randint(10, 28 if tier == "quick" else 40)
        p["n_entities"] = rng.randint(1, 4)
        p["capacity"] = rng.choice([4096, 64, 8, 2, 1])
        return p

    def setup(self, run):
        super().setup(run)
        run.scratch.update({"snaps": {}, "by_string": {}, "n": 0})

    # ------------------------------------------------------------------ generation
    def new_sid_expr(self, run):
        """An expression building a Sid in one of the supported ways (typed, untyped, search, uri-forced)."""
        rng, m = run.rng, run.m
        vocab = self.vocab(run)
        ents = run.store.listing(m.default_config)
        base = rng.choice(ents) if ents and rng.random() < 0.6 else None
        if base is None:
            t = rng.choice(vocab.usable_types())
            base = gen_sid(rng, m, vocab, t, run.scratch.setdefault("value_pool", {}), reuse=0.6) or "hamlet"
        tn = m.natural_type(base)
        r = rng.random()
        if rng.random() < 0.12:
            # a NEAR TWIN of a string the client already holds: the other unicode normalisation form, another letter case,
            # a trailing blank -- different uris, hence different Sids, however alike they look
            import unicodedata
            held = sorted({sn[0] for sn in (run.scratch.get("snaps") or {}).values() if sn and sn[0]}) or [base]
            b0 = rng.choice(held)
            twins = [t for t in (unicodedata.normalize("NFD", b0), unicodedata.normalize("NFC", b0), b0.swapcase(),
                                 b0.upper(), b0 + " ", b0.replace("e", "e\u0301", 1), b0.replace("o", "\u00f6", 1)) if t != b0]
            if twins:
                run.probes["near_twin_of_a_held_sid"] += 1
                return X.call("Sid", rng.choice(twins))
        if rng.random() < 0.06 and tn:
            # sid AND query handed to the constructor together (the string of a Sid the client may already hold)
            kq = rng.choice(m.by_name[tn].keys)
            run.probes["constructor_with_sid_and_query"] += 1
            return X.call("Sid", base, query="%s=%s" % (kq, rng.choice(["*", "zz", m.fields(tn, base).get(kq, "x")])))
        if r < 0.25:
            return X.call("Sid", base)
        if r < 0.40:
            s, _ = gen_search(rng, m, vocab, base, simple=rng.random() < 0.5, allow_last=True)
            return X.call("Sid", s)
        if r < 0.55:
            # same string, another type (uri-forced) -- search strings are accepted by several types
            segs = base.split("/")
            s = "/".join(segs[:-1] + ["*"])
            types = m.accepting_types(s)
            return X.call("Sid", rng.choice(types) + ":" + s) if types else X.call("Sid", s)
        if r < 0.65:
            f = list(m.fields(tn, base).items())
            rng.shuffle(f)
            return X.call("Sid", fields=X.lit(dict(f)))
        if r < 0.73:
            return X.call("Sid", query="&".join("%s=%s" % kv for kv in m.fields(tn, base).items()))
        if r < 0.83:
            c = rng.choice(m.configs)
            p = m.path_of_sid(base, c)
            if p:
                return X.call("Sid", path=p, config=c)
        if r < 0.86:
            # a forced type that does not fit: an UNTYPED Sid with the same string as the typed one
            wrong = [t.name for t in m.types if not t.accepts(base.split("/"))]
            if wrong:
                return X.call("Sid", rng.choice(wrong) + ":" + base)
        if r < 0.92:
            return X.call("Sid", rng.choice(["foo/bar", "", "hamlet/x/y", "bla", base + "?zz=1", base + "/extra/extra/extra/extra"]))
        return X.call("Sid", tn + ":" + base)

    def gen(self, run, i):
        rng, m = run.rng, run.m
        if i == 0:
            run.scratch["uni"] = self.plan_universe(run, run.store.clone(), run.params["n_entities"], mirror=True, data_p=0.0)
        uni = run.scratch["uni"]
        if i < len(uni):
            return uni[i]
        if i - len(uni) >= run.params["n_ops"]:
            return None
        n = run.scratch["n"]
        r = rng.random()
        if n < 3 or (r < 0.25 and n < POOL_MAX):
            if rng.random() < 0.15:
                # built from a fields dictionary the CLIENT KEEPS (in template order, or shuffled) and mutates later
                ents = run.store.listing(m.default_config)
                vocab = self.vocab(run)
                base = rng.choice(ents) if ents else gen_sid(rng, m, vocab, rng.choice(vocab.usable_types()), {}, reuse=0)
                if base and m.natural_type(base):
                    f = list(m.fields(m.natural_type(base), base).items())
                    if rng.random() < 0.4:
                        rng.shuffle(f)
                    return {"op": "new", "held_dict": f}
            return {"op": "new", "e": self.new_sid_expr(run)}
        names = ["p%d" % k for k in range(n)]
        a = rng.choice(names)
        b = rng.choice(names)
        A = X.ref(a)
        if r < 0.28:
            return {"op": "restart"}
        if r < 0.33:
            return {"op": "flood", "n": rng.choice([3, 10, 40]), "salt": rng.randrange(1000)}
        kind = rng.choice(["fields_mut", "fields_mut", "copy", "parent", "get_as", "get_with", "get_with_q", "div", "match",
                           "misc", "path", "data", "rebuild", "eval_repr", "sort", "list_mut"])
        return {"op": "use", "kind": kind, "a": a, "b": b, "arg": rng.randrange(1000)}

    # ------------------------------------------------------------------ execution
    def use_expr(self, run, step):
        m = run.m
        A, B = X.ref(step["a"]), X.ref(step["b"])
        k, arg = step["kind"], step["arg"]
        keys = sorted({kk for t in m.types for kk in t.keys if kk})
        key = keys[arg % len(keys)]
        if k == "fields_mut":
            how = arg % 5
            F = X.attr(A, "fields")
            if how == 0:
                return X.meth(F, "__setitem__", key, "MUTATED")
            if how == 1:
                return X.meth(F, "clear")
            if how == 2:
                return X.meth(F, "update", X.lit({"project": "MUTATED", "zzz": "1"}))
            if how == 3:
                return X.meth(F, "pop", key, None)
            return X.meth(F, "setdefault", "zzz", "MUTATED")
        if k == "copy":
            return X.seq(X.meth(A, "copy"), X.meth(X.attr(X.meth(A, "copy"), "fields"), "clear"))
        if k == "parent":
            return X.seq(X.attr(A, "parent"), X.meth(X.attr(X.attr(A, "parent"), "fields"), "clear"))
        if k == "get_as":
            return X.meth(A, "get_as", key)
        if k == "get_with":
            return X.meth(A, "get_with", **{key: ["*", "zz", None, ""][arg % 4]})
        if k == "get_with_q":
            return X.meth(A, "get_with", query="%s=%s" % (key, ["*", "zz", "~a"][arg % 3]))
        if k == "div":
            return X.call("truediv", A, ["*", "x", None, "v001"][arg % 4])
        if k == "match":
            return X.meth(A, "match", B)
        if k == "misc":
            return X.seq(X.meth(A, "is_search"), X.meth(A, "as_query"), X.attr(A, "keytype"), X.attr(A, "basetype"),
                         X.meth(A, "get", key), X.meth(A, "is_leaf"), X.call("len", A), X.call("str", A), X.call("repr", A))
        if k == "path":
            return X.seq(X.meth(A, "path"), X.meth(A, "path", m.configs[arg % len(m.configs)]))
        if k == "data":
            return X.seq(X.meth(A, "exists"), X.meth(A, "children"), X.meth(A, "siblings"), X.meth(A, "get_last"))
        if k == "rebuild":
            return X.seq(X.call("Sid", X.attr(A, "uri")), X.call("Sid", X.call("str", A)), X.call("Sid", A))
        if k == "eval_repr":
            return X.call("eval_repr", A)
        if k == "sort":
            return X.call("sorted", [A, B])
        if k == "list_mut":
            which = ["children", "siblings"][arg % 2]
            L = X.meth(A, which)
            return X.seq(X.meth(L, "clear"), X.meth(X.meth(A, which), "append", "junk"))
        raise ValueError(k)

    def apply(self, run, step):
        op = step["op"]
        if op in ("mirror", "create", "write"):
            self.apply_common(run, step)
            return
        sc = run.scratch
        if op == "restart":
            # a new epoch: held Sids are gone with the process; the snapshots by string still bind re-built Sids
            run.start_epoch()
            sc["snaps"] = {}
            sc["n"] = 0
            sc["dict_of"] = {}
            return
        if op == "new":
            name = "p%d" % sc["n"]
            if "held_dict" in step:
                dname = "dict_" + name
                run.do(X.call("dict", [list(kv) for kv in step["held_dict"]]), store=dname)
                step = dict(step, e=X.call("Sid", fields=X.ref(dname)))
                sc.setdefault("dict_of", {})[name] = dname
                run.probes["sid_from_client_held_dict"] += 1
            obs = run.do(step["e"], store=name)
            if X.is_exc(obs):
                run.stats["constructor_raised"] += 1
                return
            sc["n"] += 1
            snap = run.do(X.call("snap", X.ref(name)))
            sc["snaps"][name] = snap
            # a Sid built again from the same uri has the value the first one had (ignoring the process-local hash)
            uri = snap[3]
            # fields compared as a mapping: C14 speaks of equality of values, not of key order (a Sid built from a
            # query keeps the query's key order -- C02/C03 territory, not claimed here)
            val = [snap[0], snap[1], sorted(map(tuple, snap[2]))]
            first = sc["by_string"].setdefault(uri, val)
            first = [first[0], first[1], sorted(map(tuple, first[2]))]
            run.check(first == val, "C14.rebuilt_sid_differs", {"uri": uri, "first": first, "now": val, "how": step["e"]})
        elif op == "flood":
            es = [X.call("Sid", "hamlet/a/char/n%d_%d" % (step["salt"], j)) for j in range(step["n"])]
            run.do(X.seq(*es))
            run.probes["floods"] += 1
        elif op == "use":
            if step["a"] not in sc["snaps"] or step["b"] not in sc["snaps"]:
                return
            dname = (sc.get("dict_of") or {}).get(step["a"])
            if dname and step["kind"] in ("fields_mut", "misc", "copy"):
                # the client mutates ITS OWN dictionary, the one the Sid was built from
                D = X.ref(dname)
                run.do(X.seq(X.meth(D, "__setitem__", "project", "MUTATED"), X.meth(D, "pop", "type", None),
                             X.meth(D, "update", X.lit({"zzz": "1"}))))
                run.probes["client_dict_mutated"] += 1
            run.do(self.use_expr(run, step))
            run.case_mark(step["kind"], sc["snaps"][step["a"]][3])
        else:
            raise ValueError(op)
        run.stats["ops_checked"] += 1
        self.invariants(run, step)

    def invariants(self, run, step):
        sc = run.scratch
        if not sc["snaps"]:
            return
        obs = run.do(X.call("pool_check"))
        d = X.decode(obs)
        run.check(isinstance(d, dict) and "snaps" in d, "C14.invariant_pass_raises", {"got": obs, "after": step})
        for name, snap in sorted(d["snaps"].items()):
            if name not in sc["snaps"]:
                continue
            want = sc["snaps"][name]
            run.check(snap == want, "C14.sid_changed", {"held": name, "was": want, "now": snap, "after": step})
        run.check(d["laws"] == [], "C14.value_laws", {"broken": d["laws"][:5], "after": step})
        run.stats["pairs_checked"] += d.get("pairs", 0)


PROFILE = ValuesProfile()
