"""C11 -- all Finders give the same answer for the same data; junk changes nothing (DESIGN 5.5)."""
import json

from .. import x as X
from .storebase import StoreProfile, gen_search, near_miss, typed_prefixes, JUNK_KINDS, SEPARATORS


def answer(obs):
    """('ok', [uris]) | ('exc', name)"""
    u = X.uris(obs)
    if u is None:
        return ("exc", X.exc_name(obs) or "malformed")
    return ("ok", u)


class FindersProfile(StoreProfile):
    name = "finders"
    prop = "C11"
    rule = ("one case = one search of the C07/C09 family evaluated on a reached store state by FindInPaths(local), "
            "FindInPaths(server), FindInList(model list) x2 and FindInAll, or one junk injection followed by re-evaluation "
            "of the recent searches; distinct = distinct (store state, junk set) marks and distinct search feature sets")

    def evaluations(self, stats, runs):
        return stats.get("searches", 0) + stats.get("junk_rechecks", 0)

    def params(self, rng, tier):
        p = super().params(rng, tier)
        p["crowd"] = rng.random() < 0.1
        p["n_entities"] = rng.randint(3, 10 if tier == "quick" else 16)
        p["n_ops"] = rng.randint(6, 14 if tier == "quick" else 40)
        p["junk"] = rng.random() < 0.7
        p["junk_kinds"] = sorted(rng.sample(JUNK_KINDS, rng.randint(2, len(JUNK_KINDS))))
        p["capacity"] = rng.choice([4096, 4096, 64, 8])
        p["last"] = rng.random() < 0.5 and not __import__("os").environ.get("DSIM_NO_LAST")
        return p

    def gen(self, run, i):
        rng, m = run.rng, run.m
        if i == 0:
            # attribute data on folders too: spil's own sidecars ('.bob.data.json') sit next to the entities, at levels
            # whose names are unconstrained -- hidden files the searches must keep ignoring
            run.scratch["uni"] = self.plan_universe(run, run.store.clone(), run.params["n_entities"], mirror=True, data_p=0.35,
                                                    leaf_p=0.55)
        uni = run.scratch["uni"]
        if i < len(uni):
            return uni[i]
        j = i - len(uni)
        if j >= run.params["n_ops"]:
            return None
        r = rng.random()
        ents = run.store.listing(m.default_config)
        if not ents:
            return None
        if r < 0.06:
            return {"op": "restart"}
        if r < 0.16:
            extra = self.plan_universe(run, run.store.clone(), 1, mirror=True, data_p=0.1)
            if extra:
                return extra[0]
        if r < 0.22:
            # attribute data on an entity of a level whose names are unconstrained (asset, node ...): spil's own
            # sidecar then sits among the entities of that level as a hidden file
            free = [e for e in ents if m.vocab(m.natural_type(e), m.by_name[m.natural_type(e)].keys[-1])[0] == "free"]
            if free:
                from .base import gen_data
                return {"op": "write", "cfg": rng.choice(m.configs), "sid": rng.choice(free), "how": "set", "data": gen_data(rng, nmax=1)}
        if r < 0.40 and run.params["junk"]:
            st = self.plan_junk(run, run.store, run.params["junk_kinds"])
            if st:
                return st
        base = rng.choice(ents)
        if rng.random() < 0.15:
            extra = typed_prefixes(m, ents)     # levels without a path (constant-backed state level ...)
            if extra:
                base = rng.choice(extra)
        elif rng.random() < 0.15:
            # a base that does not exist: same shape, fresh values
            t = m.natural_type(base)
            from .base import gen_sid
            b2 = gen_sid(rng, m, self.vocab(run), t, run.scratch.get("value_pool"), reuse=0.6)
            base = b2 or base
        # entities whose free-form value contains a file-name separator ('rig_b' next to 'rig'): asked for more often
        seppy = [e for e in ents if any(sp in seg.strip(sp) for seg in e.split("/")[2:] for sp in SEPARATORS)]
        if seppy and rng.random() < 0.12:
            base = rng.choice(seppy)
        simple = rng.random() < 0.4
        keep = ()
        if rng.random() < 0.15:
            nb, idx = near_miss(rng, m, ents)
            if nb:
                base, keep = nb, (idx,)
                run.probes["near_miss_searches"] += 1
        s, feats = gen_search(rng, m, self.vocab(run), base, simple=simple, allow_last=run.params["last"], keep=keep,
                              allow_dstar=not keep)
        return {"op": "search", "s": s, "feats": sorted(feats)}

    # ------------------------------------------------------------------ oracles
    def apply(self, run, step):
        if self.apply_common(run, step):
            if step["op"] == "junk":
                self.recheck_after_junk(run, step)
            if step["op"] in ("mirror", "create", "write"):
                # the answers must track the change: the recent searches are asked again on the new state
                recent = run.scratch.get("recent") or []
                run.scratch["recent"] = []
                for s, _ in recent[-3:]:
                    self.check_search(run, s)
                    run.probes["searches_repeated_after_create"] += 1
            return
        if step["op"] == "search":
            ans = self.check_search(run, step["s"])
            rec = run.scratch.setdefault("recent", [])
            rec.append((step["s"], ans))
            del rec[:-5]
            run.state_mark("feats", step.get("feats"))
            for f in step.get("feats") or []:
                run.probes["search_feature:" + f] += 1
        else:
            raise ValueError(step["op"])

    def path_routed(self, run, uri):
        t = uri.split(":", 1)[0] if ":" in uri else None
        r = run.m.routing.get(t) or {}
        f = r.get("finder") or {}
        return f.get("class") == "FindInPaths"

    def check_search(self, run, s):
        m, st = run.m, run.store
        run.stats["searches"] += 1
        fx = self.finder_exprs(run)
        ans = {}
        for name in sorted(fx):
            ans[name] = answer(self.find(run, fx[name], s))
        kinds = {a[0] for a in ans.values()}
        if kinds == {"exc"} and len({a[1] for a in ans.values()}) == 1:
            run.stats["not_evaluable_all_raise"] += 1
            return ans
        for name, a in sorted(ans.items()):
            run.check(a[0] == "ok", "C11.party_raises", {"search": s, "party": name, "exc": a[1],
                                                        "others": {k: v[0] for k, v in ans.items()}})
            run.check(len(a[1]) == len(set(a[1])), "C11.duplicates", {"search": s, "party": name, "got": a[1]})
        sets = {k: set(v[1]) for k, v in ans.items()}
        # Applicability gate (DESIGN 8): when the implementation's own unfolding contains a typed search whose
        # type has no path template, FindInList may legitimately match entries of other types through that
        # search's string (C08 is a pure glob match), which FindInPaths cannot answer ("restricted, for
        # FindInPaths, to types that have a path"): only P <= L is required then.
        uf = X.items(run.do(X.call("unfold_search", s)))
        uf_types = sorted({v["~S"][0] for v in uf if isinstance(v, dict) and "~S" in v}) if uf is not None else []
        for c in m.configs:
            if any(not m.has_path(t, c) for t in uf_types):
                run.stats["gated_no_path_type"] += 1
                if ">" in s:
                    continue   # a selection ('>') over a superset is not a superset of the selection: not comparable
                run.check(sets["P:" + c] <= sets["L:" + c], "C11.paths_vs_list",
                          {"search": s, "config": c, "only_paths": sorted(sets["P:" + c] - sets["L:" + c]), "gated": True})
                continue
            run.check(sets["P:" + c] == sets["L:" + c], "C11.paths_vs_list",
                      {"search": s, "config": c, "only_paths": sorted(sets["P:" + c] - sets["L:" + c]),
                       "only_list": sorted(sets["L:" + c] - sets["P:" + c])})
        dc = m.default_config
        a_pr = {u for u in sets["A"] if self.path_routed(run, u)}
        p_pr = {u for u in sets["P:" + dc] if self.path_routed(run, u)}
        run.check(a_pr == p_pr, "C11.all_vs_paths",
                  {"search": s, "only_all": sorted(a_pr - p_pr), "only_paths": sorted(p_pr - a_pr)})
        if len(m.configs) > 1 and run.scratch.get("mirrored", True):
            c0, c1 = m.configs[0], m.configs[1]
            run.check(sets["P:" + c0] == sets["P:" + c1], "C11.local_vs_server",
                      {"search": s, c0: sorted(sets["P:" + c0] - sets["P:" + c1]), c1: sorted(sets["P:" + c1] - sets["P:" + c0])})
        if m.is_simple_star(s):
            run.stats["ground_truth_searches"] += 1
            for c in m.configs:
                want = st.find_simple(c, s)
                run.check(sets["P:" + c] == want, "C11.paths_vs_model",
                          {"search": s, "config": c, "extra": sorted(sets["P:" + c] - want), "missing": sorted(want - sets["P:" + c])})
            want = st.find_all_simple(s)
            if want is not None:
                run.check(sets["A"] == want, "C11.all_vs_model",
                          {"search": s, "extra": sorted(sets["A"] - want), "missing": sorted(want - sets["A"])})
        if any(sets.values()):
            run.stats["nonempty_searches"] += 1
            # non-trivial = at least one party found something; distinct = (search, answer of FindInAll, junk present)
            run.case_mark(s, sorted(sets["A"]), bool(run.scratch.get("junk")))
        return ans

    def recheck_after_junk(self, run, step):
        """Junk invariance: the answers to the recent searches are identical right after the injection."""
        rec = run.scratch.get("recent") or []
        fx = self.finder_exprs(run)
        for s, before in rec:
            run.stats["junk_rechecks"] += 1
            for name in sorted(fx):
                after = answer(self.find(run, fx[name], s))
                b = before[name]
                same = (after[0] == b[0]) and (set(after[1]) == set(b[1]) if after[0] == "ok" else after[1] == b[1])
                run.check(same, "C11.junk_changes_answer",
                          {"search": s, "party": name, "junk": step["rel"], "kind": step["kind"],
                           "before": b if b[0] == "exc" else sorted(b[1]), "after": after if after[0] == "exc" else sorted(after[1])})

    def apply_common(self, run, step):
        if step["op"] == "create":
            run.scratch["mirrored"] = False
        return super().apply_common(run, step)

    def simplify(self, step, violation):
        return []


PROFILE = FindersProfile()
