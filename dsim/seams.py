"""Seam layer installed inside executor children (DESIGN 3.3). No change to /repo is needed:
every mutating file-system call that CPython's pathlib / io / shutil / tempfile make goes through
attributes of the ``os`` / ``io`` / ``builtins`` modules, which are replaced here.

* effect trace: every successful mutating call under the world root is numbered and recorded
* crash plans: die (os._exit(77), no flush, no finally) right after effect j completes, or after
  exactly k bytes of write effect j reached the file descriptor
* listing order: os.scandir / os.listdir return entries in an order that is a function of
  (listing seed, directory, directory content)
* read faults: EACCES at open / EIO at first read for selected paths
"""
import builtins
import errno
import io
import json
import os

from .rng import stable_perm

CRASH_EXIT = 77

_real = {}


class State:
    installed = False
    root = None          # world root: only effects under it are traced
    effects = None       # list of [kind, relpath, nbytes]
    plan = None          # None | {"after": j} | {"at": j, "bytes": k}
    trace_fd = None      # if set, every effect is also written there (survives os._exit)
    listing = ("sorted", 0)
    read_faults = {}     # abs path -> "eacces" | "eio"
    tracked_fds = None
    fired = None         # counters of faults actually fired


S = State()


def _under(path):
    try:
        p = os.fspath(path)
    except TypeError:
        return None
    if isinstance(p, bytes):
        p = os.fsdecode(p)
    p = os.path.abspath(p)
    if S.root and (p == S.root or p.startswith(S.root + os.sep)):
        return p
    return None


def _rel(p):
    return os.path.relpath(p, S.root)


def _die():
    os._exit(CRASH_EXIT)


def _effect(kind, path, nbytes=0):
    """Called right after a mutating call succeeded."""
    j = len(S.effects)
    rec = [kind, _rel(path) if path else "", nbytes]
    S.effects.append(rec)
    if S.trace_fd is not None:
        os.write(S.trace_fd, (json.dumps(rec) + "\n").encode())
    if S.plan and S.plan.get("after") == j:
        _die()


def _write_effect(path, fd, raw, do_write):
    """A write of len(raw) bytes: numbered j. With plan {"at": j, "bytes": k} exactly k bytes reach fd."""
    j = len(S.effects)
    if S.plan and S.plan.get("at") == j:
        k = min(int(S.plan["bytes"]), len(raw))
        rec = ["write", _rel(path) if path else "", len(raw)]
        if S.trace_fd is not None:
            os.write(S.trace_fd, (json.dumps(rec + [k]) + "\n").encode())
        view = memoryview(raw)[:k]
        while len(view):
            n = _real["os.write"](fd, view)
            view = view[n:]
        _die()
    do_write()
    _effect("write", path, len(raw))


class _WProxy:
    """Wraps a real file object opened for writing; every write is flushed and traced."""

    def __init__(self, f, path):
        object.__setattr__(self, "_f", f)
        object.__setattr__(self, "_p", path)

    def write(self, data):
        f = self._f
        if isinstance(data, str):
            raw = data.encode(getattr(f, "encoding", None) or "utf-8", getattr(f, "errors", None) or "strict")
        else:
            raw = bytes(data)
        f.flush()

        def do():
            f.write(data)
            f.flush()

        _write_effect(self._p, f.fileno(), raw, do)
        return len(data)

    def writelines(self, lines):
        for line in lines:
            self.write(line)

    def truncate(self, *a):
        r = self._f.truncate(*a)
        _effect("truncate", self._p)
        return r

    def close(self):
        return self._f.close()

    def __enter__(self):
        return self

    def __exit__(self, *exc):
        self._f.close()
        return False

    def __iter__(self):
        return iter(self._f)

    def __getattr__(self, name):
        return getattr(self._f, name)

    def __setattr__(self, name, value):
        setattr(self._f, name, value)


class _RawProxy(io.RawIOBase):
    """The raw (unbuffered) layer of a file opened for writing. CPython's own BufferedWriter / TextIOWrapper sit on
    top of it, so user-space buffering is REAL: bytes that were written by the program but not yet flushed never reach
    this layer and are lost by os._exit, exactly as when a process is killed. Every write that does reach it is one
    traced effect (and can be cut after k bytes by a crash plan)."""

    def __init__(self, raw, path):
        super().__init__()
        self._raw = raw
        self._p = path

    def writable(self):
        return True

    def readable(self):
        return False

    def seekable(self):
        return self._raw.seekable()

    def fileno(self):
        return self._raw.fileno()

    def isatty(self):
        return False

    def write(self, b):
        data = bytes(b)
        fd = self._raw.fileno()

        def do():
            view = memoryview(data)
            while len(view):
                n = _real["os.write"](fd, view)
                view = view[n:]

        _write_effect(self._p, fd, data, do)
        return len(data)

    def seek(self, *a):
        return self._raw.seek(*a)

    def tell(self):
        return self._raw.tell()

    def truncate(self, *a):
        r = self._raw.truncate(*a)
        _effect("truncate", self._p)
        return r

    def close(self):
        if not self.closed:
            try:
                super().close()
            finally:
                self._raw.close()

    @property
    def name(self):
        return self._raw.name

    @property
    def mode(self):
        return self._raw.mode


def _layered(raw, path, mode, buffering, encoding, errors, newline):
    """Real CPython buffering layers on top of the traced raw layer (what io.open would build)."""
    rp = _RawProxy(raw, path)
    binary = "b" in mode
    if buffering == 0:
        return rp
    size = buffering if buffering and buffering > 1 else getattr(raw, "_blksize", io.DEFAULT_BUFFER_SIZE) or io.DEFAULT_BUFFER_SIZE
    buf = io.BufferedWriter(rp, size)
    if binary:
        return buf
    text = io.TextIOWrapper(buf, encoding, errors, newline, line_buffering=(buffering == 1))
    text.mode = mode
    return text


def _open_args(args, kwargs):
    names = ["buffering", "encoding", "errors", "newline", "closefd", "opener"]
    vals = {"buffering": -1, "encoding": None, "errors": None, "newline": None, "closefd": True, "opener": None}
    for n, v in zip(names, args):
        vals[n] = v
    vals.update(kwargs)
    return vals


class _RFaultProxy:
    def __init__(self, f):
        self._f = f

    def _boom(self, *a, **k):
        S.fired["read_eio"] = S.fired.get("read_eio", 0) + 1
        raise OSError(errno.EIO, "Input/output error (injected)")

    read = readline = readlines = _boom

    def __iter__(self):
        self._boom()

    def __enter__(self):
        return self

    def __exit__(self, *exc):
        self._f.close()
        return False

    def __getattr__(self, name):
        return getattr(self._f, name)


def _is_write_mode(mode):
    return any(c in mode for c in "wax+")


def _open(file, mode="r", *args, **kwargs):
    real_open = _real["io.open"]
    if isinstance(file, int):
        if _is_write_mode(mode) and "+" not in mode and S.tracked_fds is not None and file in S.tracked_fds:
            a = _open_args(args, kwargs)
            raw = real_open(file, mode.replace("t", "").replace("b", "") + "b", buffering=0, closefd=a["closefd"])
            return _layered(raw, S.tracked_fds[file], mode, a["buffering"], a["encoding"], a["errors"], a["newline"])
        f = real_open(file, mode, *args, **kwargs)
        if _is_write_mode(mode) and S.tracked_fds is not None and file in S.tracked_fds:
            return _WProxy(f, S.tracked_fds[file])
        return f
    p = _under(file)
    if p is None:
        return real_open(file, mode, *args, **kwargs)
    if not _is_write_mode(mode):
        fault = S.read_faults.get(p)
        if fault == "eacces":
            S.fired["read_eacces"] = S.fired.get("read_eacces", 0) + 1
            raise PermissionError(errno.EACCES, "Permission denied (injected)", p)
        f = real_open(file, mode, *args, **kwargs)
        if fault == "eio":
            return _RFaultProxy(f)
        return f
    existed = os.path.lexists(p)
    kind = "open:" + "".join(c for c in mode if c in "wax+")
    if "w" in mode and existed:
        kind += ":trunc"
    elif not existed:
        kind += ":create"
    if "+" in mode:
        # random access: rare, keep the simple proxy (every write flushed and traced)
        f = real_open(file, mode, *args, **kwargs)
        try:
            _effect(kind, p)
        except BaseException:
            f.close()
            raise
        return _WProxy(f, p)
    a = _open_args(args, kwargs)
    okw = {"opener": a["opener"]} if a["opener"] is not None else {}
    raw = real_open(file, mode.replace("t", "").replace("b", "") + "b", buffering=0, **okw)
    try:
        _effect(kind, p)
    except BaseException:
        raw.close()
        raise
    return _layered(raw, p, mode, a["buffering"], a["encoding"], a["errors"], a["newline"])


def _os_open(path, flags, mode=0o777, *, dir_fd=None):
    real = _real["os.open"]
    p = _under(path) if dir_fd is None else None
    wr = flags & (os.O_WRONLY | os.O_RDWR | os.O_CREAT | os.O_TRUNC | os.O_APPEND)
    if p is None or not wr:
        if dir_fd is None:
            return real(path, flags, mode)
        return real(path, flags, mode, dir_fd=dir_fd)
    existed = os.path.lexists(p)
    fd = real(path, flags, mode)
    S.tracked_fds[fd] = p
    if (not existed) or (flags & os.O_TRUNC):
        _effect("os.open:" + ("create" if not existed else "trunc"), p)
    return fd


def _os_close(fd):
    if S.tracked_fds:
        S.tracked_fds.pop(fd, None)
    return _real["os.close"](fd)


def _os_write(fd, data):
    p = S.tracked_fds.get(fd) if S.tracked_fds else None
    if p is None:
        return _real["os.write"](fd, data)
    raw = bytes(data)
    res = []
    _write_effect(p, fd, raw, lambda: res.append(_real["os.write"](fd, raw)))
    return res[0]


def _wrap1(name, kind):
    real = _real[name]

    def w(path, *a, **k):
        p = _under(path) if "dir_fd" not in k else None
        r = real(path, *a, **k)
        if p is not None:
            _effect(kind, p)
        return r

    w.__name__ = name.split(".")[-1]
    return w


def _wrap2(name, kind):
    real = _real[name]

    def w(src, dst, *a, **k):
        p = _under(dst)
        r = real(src, dst, *a, **k)
        if p is not None:
            _effect(kind, p)
        return r

    w.__name__ = name.split(".")[-1]
    return w


def _os_fsync(fd):
    r = _real["os.fsync"](fd)
    p = S.tracked_fds.get(fd) if S.tracked_fds else None
    if p is not None:
        _effect("fsync", p)
    return r


def _os_utime(path, *a, **k):
    r = _real["os.utime"](path, *a, **k)
    return r


def _order(path, names):
    mode, seed = S.listing
    names = sorted(names)
    if mode == "sorted":
        return names
    if mode == "reversed":
        return names[::-1]
    try:
        key = os.path.abspath(os.fspath(path)) if not isinstance(path, int) else str(path)
    except TypeError:
        key = str(path)
    if S.root and key.startswith(S.root):
        key = key[len(S.root):]
    return stable_perm(names, seed, key)


class _ScanIter:
    def __init__(self, entries):
        self._it = iter(entries)

    def __iter__(self):
        return self

    def __next__(self):
        return next(self._it)

    def close(self):
        self._it = iter(())

    def __enter__(self):
        return self

    def __exit__(self, *exc):
        self.close()
        return False


def _scandir(path="."):
    with _real["os.scandir"](path) as it:
        entries = list(it)
    by = {}
    for e in entries:
        n = e.name if isinstance(e.name, str) else os.fsdecode(e.name)
        by[n] = e
    return _ScanIter([by[n] for n in _order(path, list(by))])


def _listdir(path="."):
    names = _real["os.listdir"](path)
    if names and isinstance(names[0], bytes):
        return sorted(names)
    return _order(path, names)


def install(root):
    """Install all seams (idempotent). Called in the executor child after fork."""
    if S.installed:
        return
    S.installed = True
    S.root = os.path.abspath(root)
    S.effects = []
    S.tracked_fds = {}
    S.fired = {}
    S.read_faults = {}
    _real["io.open"] = io.open
    for n in ("open", "close", "write", "mkdir", "rmdir", "unlink", "remove", "replace", "rename",
              "truncate", "fsync", "utime", "scandir", "listdir", "link", "symlink"):
        _real["os." + n] = getattr(os, n)
    io.open = _open
    builtins.open = _open
    os.open = _os_open
    os.close = _os_close
    os.write = _os_write
    os.mkdir = _wrap1("os.mkdir", "mkdir")
    os.rmdir = _wrap1("os.rmdir", "rmdir")
    os.unlink = _wrap1("os.unlink", "unlink")
    os.remove = _wrap1("os.remove", "unlink")
    os.truncate = _wrap1("os.truncate", "truncate")
    os.replace = _wrap2("os.replace", "replace")
    os.rename = _wrap2("os.rename", "rename")
    os.link = _wrap2("os.link", "link")
    os.symlink = _wrap2("os.symlink", "symlink")
    os.fsync = _os_fsync
    os.scandir = _scandir
    os.listdir = _listdir


def reset_effects():
    S.effects = []


def take_effects():
    e = S.effects
    S.effects = []
    return e
