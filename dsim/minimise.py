"""Minimisation of a failing run: parameters -> ddmin over steps -> per-step simplification.
The failure class kept is (same property, same oracle id)."""
import json

from .profiles import get_profile

PLAIN = {"listing": "sorted", "capacity": 4096, "variant": 0}


class Minimiser:
    def __init__(self, pool, res, budget=300):
        self.pool = pool
        self.res = res
        self.profile = res["profile"]
        self.oracle = res["violations"][0]["oracle"]
        self.seed = res["seed"]
        self.tier = res["tier"]
        self.hash = int(res["hash_seed"]) if str(res["hash_seed"]).isdigit() else 0
        self.budget = budget
        self.calls = 0
        self.cache = {}

    def replay(self, params, steps, h):
        key = json.dumps([params, steps, h], sort_keys=True)
        if key in self.cache:
            return self.cache[key]
        if self.calls >= self.budget:
            return None
        self.calls += 1
        r = self.pool.call({"profile": self.profile, "seed": self.seed, "tier": self.tier,
                            "replay": {"params": params, "steps": steps}}, h)
        ok = None
        if self.oracle.endswith("depends_on_hash_seed"):
            ok = self.hash_pair(r, params, steps, h)
        elif not r.get("harness_error"):
            v = r.get("violations") or []
            if v and v[0]["oracle"] == self.oracle:
                ok = r
        self.cache[key] = ok
        return ok

    def hash_pair(self, r, params, steps, h):
        """Failure class 'observation log differs between two hash seeds': replay under the other seed too."""
        other = self.res["violations"][0]["detail"].get("hash_seed_b", "0")
        if r.get("harness_error") or r.get("violations") or r.get("obslog") is None:
            return None
        r2 = self.pool.call({"profile": self.profile, "seed": self.seed, "tier": self.tier,
                             "replay": {"params": params, "steps": steps}}, int(other))
        if r2.get("harness_error") or r2.get("violations") or r2.get("obslog") is None:
            return None
        if r["obslog"] == r2["obslog"]:
            return None
        idx = next((i for i, (a, b) in enumerate(zip(r["obslog"], r2["obslog"])) if a != b), None)
        out = dict(r)
        out["violations"] = [{"oracle": self.oracle, "step": idx,
                              "detail": {"hash_seed_a": str(h), "hash_seed_b": str(other), "first_differing_call": idx,
                                         "tag": r["obslog"][idx][0] if idx is not None else None}}]
        return out

    def run(self):
        params = dict(self.res["params"])
        steps = list(self.res["steps"])
        h = self.hash
        best = self.replay(params, steps, h)
        if best is None:
            return None   # does not even reproduce: caller reports the original, flagged
        # 1. plainest parameters
        if h != 0 and not self.oracle.endswith("depends_on_hash_seed"):
            r = self.replay(params, steps, 0)
            if r:
                h, best = 0, r
        for k, v in PLAIN.items():
            if k in params and params[k] != v:
                p2 = dict(params)
                p2[k] = v
                r = self.replay(p2, steps, h)
                if r:
                    params, best = p2, r
        # 2. ddmin over steps
        steps = list(best["steps"])
        n = 2
        while len(steps) >= 2 and self.calls < self.budget:
            chunk = max(1, len(steps) // n)
            reduced = False
            for i in range(0, len(steps), chunk):
                cand = steps[:i] + steps[i + chunk:]
                if not cand:
                    continue
                r = self.replay(params, cand, h)
                if r:
                    steps = list(r["steps"])
                    best = r
                    n = max(n - 1, 2)
                    reduced = True
                    break
            if not reduced:
                if chunk == 1:
                    break
                n = min(n * 2, len(steps))
        # 3. per-step simplification offered by the profile
        prof = get_profile(self.profile)
        changed = True
        while changed and self.calls < self.budget:
            changed = False
            viol = best["violations"][0]
            for i in range(len(steps)):
                for cand_step in prof.simplify(steps[i], viol):
                    if cand_step == steps[i]:
                        continue
                    cand = steps[:i] + [cand_step] + steps[i + 1:]
                    r = self.replay(params, cand, h)
                    if r:
                        steps = list(r["steps"])
                        best = r
                        changed = True
                        break
                if changed:
                    break
        best = dict(best)
        best["hash_seed"] = str(h)
        best["minimiser_replays"] = self.calls
        return best
