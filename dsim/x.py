"""Expression builders (worker side) and observation decoders."""


def lit(v):
    return {"$lit": v}


def call(name, *a, **k):
    e = {"$c": name, "a": [arg(x) for x in a]}
    if k:
        e["k"] = {n: arg(v) for n, v in k.items()}
    return e


def meth(o, name, *a, **k):
    e = {"$m": name, "o": o, "a": [arg(x) for x in a]}
    if k:
        e["k"] = {n: arg(v) for n, v in k.items()}
    return e


def attr(o, name):
    return {"$g": name, "o": o}


def held(e):
    """The client's long-lived instance of the object built by expression e (same instance across calls)."""
    return {"$h": e}


def ref(name):
    return {"$r": name}


def take(o, n, keep="_gen"):
    return {"$take": n, "o": o, "keep": keep}


def seq(*es):
    return {"$seq": list(es)}


def arg(v):
    """Python value -> expression: plain dicts become literals, expression dicts pass through."""
    if isinstance(v, dict):
        if any(str(k).startswith("$") for k in v):
            return v
        return {"$lit": v}
    if isinstance(v, (list, tuple)):
        return [arg(x) for x in v]
    return v


def sid(s):
    return call("Sid", s)


# ---- decoders -------------------------------------------------------------------------------

def is_exc(obs):
    return isinstance(obs, dict) and "~exc" in obs and "~it" not in obs


def exc_name(obs):
    if isinstance(obs, dict) and "~exc" in obs:
        return obs["~exc"]
    return None


def undict(obs):
    """{'~D': [[k, v]...]} -> python dict (decoded recursively); None if not a dict observation."""
    if isinstance(obs, dict) and "~D" in obs:
        return {k: decode(v) for k, v in obs["~D"]}
    return None


def decode(obs):
    if isinstance(obs, dict):
        if "~D" in obs:
            return {k: decode(v) for k, v in obs["~D"]}
        if "~it" in obs and "~exc" not in obs:
            return [decode(v) for v in obs["~it"]]
        if "~S" in obs:
            return SidObs(obs)
        if "~P" in obs:
            return obs["~P"]
        if "~seq" in obs:
            return [decode(v) for v in obs["~seq"]]
        return obs
    if isinstance(obs, list):
        return [decode(v) for v in obs]
    return obs


class SidObs:
    __slots__ = ("type", "string", "fields")

    def __init__(self, obs):
        self.type, self.string, f = obs["~S"]
        self.fields = [(k, v) for k, v in f]

    @property
    def uri(self):
        return (self.type + ":" + self.string) if self.type else self.string

    def __repr__(self):
        return "S(%s)" % self.uri

    def __eq__(self, o):
        return isinstance(o, SidObs) and (self.type, self.string, self.fields) == (o.type, o.string, o.fields)

    def __hash__(self):
        return hash((self.type, self.string))


def items(obs):
    """List of items of an iterator / list observation; None when it raised."""
    if isinstance(obs, dict) and "~it" in obs:
        if "~exc" in obs:
            return None
        return obs["~it"]
    if isinstance(obs, list):
        return obs
    return None


def uris(obs):
    """List of uris (or plain strings) of a find() observation, None when it raised or is malformed."""
    it = items(obs)
    if it is None:
        return None
    out = []
    for v in it:
        if isinstance(v, dict) and "~S" in v:
            t, s, _ = v["~S"]
            out.append((t + ":" + s) if t else s)
        elif isinstance(v, str):
            out.append(v)
        else:
            return None
    return out
