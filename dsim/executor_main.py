"""Executor in a genuinely fresh interpreter (selftest: 'pristine fork == new process')."""
import json
import logging
import os
import sys


def main():
    root, repo, knobs = sys.argv[1], sys.argv[2], json.loads(sys.argv[3])
    os.environ["HOME"] = os.path.join(root, "home")
    os.chdir(os.path.join(root, "cwd"))
    sys.path[:] = [os.path.join(root, "conf"), repo] + [p for p in sys.path if os.path.abspath(p or ".") != os.path.abspath(repo)]
    sys.dont_write_bytecode = True
    r_fd, w_fd = os.dup(0), os.dup(1)
    devnull = os.open(os.devnull, os.O_WRONLY)
    os.dup2(devnull, 1)
    sys.stdout = open(os.devnull, "w")
    import spil  # noqa: F401
    import resolva.utils
    resolva.utils.log.setLevel(logging.ERROR)
    from dsim.executor import serve
    serve(root, r_fd, w_fd, knobs)


if __name__ == "__main__":
    main()
