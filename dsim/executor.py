"""Executor: the only place where real spil code runs.

An executor is a child forked from the worker's pristine image (spil imported, never called).
It evaluates *expressions* (JSON trees, see ``ev``) against the real library and returns
*canonical observations* (JSON). Exceptions are observations, never harness failures.

Expression language
    literal                       numbers, strings, booleans, null; lists are evaluated elementwise
    {"$lit": x}                   x verbatim (for dictionaries)
    {"$c": name, "a": [...], "k": {...}}          call a registered callable
    {"$m": meth, "o": expr, "a": [...], "k": {}}  method call
    {"$g": attr, "o": expr}                       attribute
    {"$r": name}                                  object held by this client (pool)
    {"$take": n, "o": expr, "keep": name}         next() n times on an iterator, keep it alive
    {"$seq": [expr...]}                           evaluate all, observation of each
"""
import faulthandler
import json
import os
import select
import signal
import sys
import time

from . import seams

WORLD_TAG = "<W>"


class Ctx:
    root = None
    pool = None
    reg = None
    excs = None      # side channel: [name, message, innermost spil frame] of the exceptions of this request


def _note_exc(ex):
    """Where an exception came from (innermost frame inside the spil package): a side channel for reports and for
    matching known findings by call site; never part of an observation."""
    where = ""
    tb = ex.__traceback__
    while tb is not None:
        fn = tb.tb_frame.f_code.co_filename.replace(os.sep, "/")
        if "/spil/" in fn:
            where = "%s:%s" % (fn.rsplit("/", 1)[-1], tb.tb_frame.f_code.co_name)
        tb = tb.tb_next
    if C.excs is not None and len(C.excs) < 6:
        C.excs.append([type(ex).__name__, _s(str(ex))[:160], where])


C = Ctx()


def _registry():
    import spil
    from spil import (Sid, FindInPaths, FindInList, FindInAll, FindInConstants, GetFromPaths,
                      GetFromAll, WriteToPaths, SpilException)
    from spil.sid.read.tools import unfold_search
    from spil.sid.core.utils import simple_typing
    from spil.sid.core import sid_resolver, query_helper
    from spil.sid.pathops import fs_resolver
    from spil.sid.pathops.pathconfig import get_path_config
    from spil.sid.read.finders.find_all import get_finder
    from spil.sid.read.finders.find_list import glob2re
    from spil import conf
    from pathlib import Path

    def eval_repr(s):
        return eval(repr(s), {"Sid": Sid})

    def snap(s):
        return [s.string, s.type, list(s.fields.items()), s.uri, hash(s), str(s), repr(s), len(s), bool(s)]

    def cmp(a, b):
        return {"eq": a == b, "ne": a != b, "lt": a < b, "heq": hash(a) == hash(b)}

    def setlen(items):
        return len(set(items))

    def dictlen(items):
        return len({i: 1 for i in items})

    def data_path(p):
        return conf.get_data_json_path(Path(p))

    def mutate_nested(rec):
        """What a careless caller does with a record it received: edits it in place, nested values included."""
        n = 0
        if isinstance(rec, dict):
            for k in list(rec):
                v = rec[k]
                if isinstance(v, list):
                    v.append("MUTATED-BY-CALLER")
                    n += 1
                elif isinstance(v, dict):
                    v["MUTATED-BY-CALLER"] = 1
                    n += 1
            rec["MUTATED-BY-CALLER"] = 1
        return n

    from .confspec import introspect

    def pool_check():
        """Snapshots of every held Sid plus the value laws (eq/hash/order/set/dict) over all pairs."""
        sids = {n: v for n, v in C.pool.items() if n.startswith("p") and isinstance(v, Sid)}
        names = sorted(sids)
        laws = []
        for a in names:
            for b in names:
                A, B = sids[a], sids[b]
                if (A == B) != (A.uri == B.uri):
                    laws.append(["eq_vs_uri", A.uri, B.uri])
                if (A != B) == (A == B):
                    laws.append(["ne_vs_eq", A.uri, B.uri])
                if A == B and hash(A) != hash(B):
                    laws.append(["equal_but_hash_differs", A.uri, B.uri])
                if (A == str(B)) != (str(A) == str(B)) or (str(B) == A) != (str(A) == str(B)):
                    laws.append(["eq_plain_string", A.uri, str(B)])
                if (A < B) != (str(A) < str(B)):
                    laws.append(["lt_vs_string", A.uri, B.uri])
        vals = list(sids.values())
        if [str(x) for x in sorted(vals)] != sorted(str(x) for x in vals):
            laws.append(["sorted_not_by_string"])
        uris = {x.uri for x in vals}
        if len(set(vals)) != len(uris):
            laws.append(["set_size", len(set(vals)), len(uris)])
        if len({x: 1 for x in vals}) != len(uris):
            laws.append(["dict_size", len({x: 1 for x in vals}), len(uris)])
        return {"snaps": {n: snap(v) for n, v in sids.items()}, "laws": laws, "pairs": len(names) ** 2}

    reg = {
        "Sid": Sid, "FindInPaths": FindInPaths, "FindInList": FindInList, "FindInAll": FindInAll,
        "FindInConstants": FindInConstants, "GetFromPaths": GetFromPaths, "GetFromAll": GetFromAll,
        "WriteToPaths": WriteToPaths,
        "unfold_search": unfold_search, "simple_typing": simple_typing,
        "sid_to_dict": sid_resolver.sid_to_dict, "sid_to_dicts": sid_resolver.sid_to_dicts,
        "dict_to_sid": sid_resolver.dict_to_sid, "dict_to_type": sid_resolver.dict_to_type,
        "path_to_dict": fs_resolver.path_to_dict, "dict_to_path": fs_resolver.dict_to_path,
        "get_path_config": get_path_config, "get_finder": get_finder, "glob2re": glob2re,
        "apply_query": query_helper.apply_query,
        "eval_repr": eval_repr, "snap": snap, "cmp": cmp, "setlen": setlen, "dictlen": dictlen,
        "data_path": data_path, "Path": Path, "introspect": introspect, "pool_check": pool_check,
        "str": str, "repr": repr, "bool": bool, "len": len, "hash": hash, "list": list,
        "sorted": sorted, "dict": dict, "tuple": tuple, "set": set, "next": next, "iter": iter,
        "enc_str": lambda: str, "enc_uri": lambda: (lambda s: s.uri), "enc_none": lambda: (lambda s: None),
        "eq": lambda a, b: a == b, "lt": lambda a, b: a < b, "contains": lambda a, b: b in a,
        "truediv": lambda a, b: a / b,
        "noop": lambda *a, **k: None,
        "mutate_nested": mutate_nested,
        "getsize": lambda p: os.path.getsize(str(p)) if os.path.isfile(str(p)) else -1,
    }
    return reg


class _Unwrap(Exception):
    pass


def ev(e):
    """Evaluate an expression tree to a Python object."""
    if isinstance(e, list):
        return [ev(x) for x in e]
    if isinstance(e, str):
        return e.replace(WORLD_TAG, C.root) if WORLD_TAG in e else e
    if not isinstance(e, dict):
        return e
    if "$lit" in e:
        return e["$lit"]
    if "$w" in e:  # path below the world root
        return os.path.join(C.root, e["$w"])
    if "$r" in e:
        return C.pool[e["$r"]]
    if "$h" in e:
        # an object the client keeps and re-uses across calls (an application holding one finder): created on
        # first use in this process, the same instance afterwards; a fresh twin process creates its own
        key = "held:" + json.dumps(e["$h"], sort_keys=True)
        if key not in C.pool:
            C.pool[key] = ev(e["$h"])
        return C.pool[key]
    if "$c" in e:
        fn = C.reg[e["$c"]]
        args = [ev(x) for x in e.get("a", [])]
        kw = {k: ev(v) for k, v in e.get("k", {}).items()}
        return fn(*args, **kw)
    if "$m" in e:
        o = ev(e["o"])
        args = [ev(x) for x in e.get("a", [])]
        kw = {k: ev(v) for k, v in e.get("k", {}).items()}
        return getattr(o, e["$m"])(*args, **kw)
    if "$g" in e:
        return getattr(ev(e["o"]), e["$g"])
    if "$take" in e:
        it = iter(ev(e["o"]))
        out = []
        for _ in range(int(e["$take"])):
            try:
                out.append(next(it))
            except StopIteration:
                break
        C.pool[e.get("keep", "_gen")] = it   # stays alive, suspended
        return out
    if "$seq" in e:
        return _Seq([observe(x) for x in e["$seq"]])
    raise ValueError("bad expression %r" % (e,))


class _Seq:
    def __init__(self, obs):
        self.obs = obs


def _s(x):
    """Canonical string: the world root is replaced, so observations are location independent."""
    if C.root and C.root in x:
        x = x.replace(C.root, WORLD_TAG)
    return x


def canon(v, depth=0):
    from spil import Sid
    from pathlib import PurePath
    if depth > 12:
        return {"~deep": True}
    if v is None or isinstance(v, (bool, int, float)):
        return v
    if isinstance(v, str):
        return _s(v)
    if isinstance(v, _Seq):
        return {"~seq": v.obs}
    if isinstance(v, Sid):
        return {"~S": [v.type, _s(v.string), [[k, canon(x, depth + 1)] for k, x in v._fields.items()]]}
    if isinstance(v, PurePath):
        return {"~P": _s(v.as_posix())}
    if isinstance(v, dict):
        return {"~D": [[canon(k, depth + 1), canon(x, depth + 1)] for k, x in v.items()]}
    if isinstance(v, (list, tuple)):
        return [canon(x, depth + 1) for x in v]
    if isinstance(v, (set, frozenset)):
        return {"~set": sorted((canon(x, depth + 1) for x in v), key=lambda j: json.dumps(j, sort_keys=True))}
    if isinstance(v, (bytes, bytearray)):
        return {"~b": v.decode("latin1")}
    if hasattr(v, "__next__") or type(v).__name__ in ("generator", "map", "filter", "dict_keys", "dict_values", "dict_items", "odict_keys"):
        out = []
        try:
            for x in v:
                out.append(canon(x, depth + 1))
            return {"~it": out}
        except Exception as ex:  # exception while consuming: part of the observation
            _note_exc(ex)
            return {"~it": out, "~exc": type(ex).__name__}
    cls = type(v).__name__
    d = {"~O": cls}
    for a in ("config", "config_name", "name", "key", "values"):
        if hasattr(v, a):
            try:
                d[a] = canon(getattr(v, a), depth + 1)
            except Exception:
                pass
    return d


def observe(e):
    try:
        return canon(ev(e))
    except BaseException as ex:
        if isinstance(ex, (KeyboardInterrupt, SystemExit)):
            raise
        _note_exc(ex)
        return {"~exc": type(ex).__name__, "msg": _s(str(ex))[:200]}


# ----------------------------------------------------------------------------------------------
# RPC loop (child side)


def _send(fd, obj):
    data = (json.dumps(obj) + "\n").encode()
    w = seams._real.get("os.write", os.write)
    view = memoryview(data)
    while len(view):
        n = w(fd, view)
        view = view[n:]


class LineReader:
    def __init__(self, fd):
        self.fd = fd
        self.buf = b""

    def read(self, timeout=None):
        """Return one decoded JSON line, None on EOF. Raises TimeoutError."""
        while b"\n" not in self.buf:
            if timeout is not None:
                r, _, _ = select.select([self.fd], [], [], timeout)
                if not r:
                    raise TimeoutError()
            chunk = os.read(self.fd, 1 << 16)
            if not chunk:
                return None
            self.buf += chunk
        line, self.buf = self.buf.split(b"\n", 1)
        return json.loads(line)


def _apply_knobs(k):
    if "capacity" in k:
        import spil.util.caching as caching
        caching._max_size = int(k["capacity"])
    if "listing" in k:
        seams.S.listing = (k["listing"][0], int(k["listing"][1]))
    if "read_faults" in k:
        seams.S.read_faults = {os.path.join(C.root, p): kind for p, kind in k["read_faults"].items()}


def _branch(req):
    """Fork a grandchild that evaluates req["e"] under a crash plan. This process keeps its state."""
    r_fd, w_fd = os.pipe()
    sys.stdout.flush()
    pid = os.fork()
    if pid == 0:
        try:
            os.close(r_fd)
            seams.S.effects = []
            seams.S.trace_fd = w_fd
            seams.S.plan = req.get("plan")
            if req.get("knobs"):
                _apply_knobs(req["knobs"])
            if seams.S.plan and seams.S.plan.get("after") == -1:
                os._exit(seams.CRASH_EXIT)
            seams.S.fired.clear()
            obs = observe(req["e"])
            seams.S.plan = None
            _send(w_fd, {"done": obs, "fired": dict(seams.S.fired)})
        except BaseException as ex:  # harness problem inside the branch
            try:
                _send(w_fd, {"harness_error": repr(ex)})
            except BaseException:
                pass
            os._exit(3)
        os._exit(0)
    os.close(w_fd)
    rd = LineReader(r_fd)
    trace, done, herr, fired = [], None, None, {}
    try:
        while True:
            msg = rd.read(timeout=25)
            if msg is None:
                break
            if isinstance(msg, list):
                trace.append(msg)
            elif "done" in msg:
                done = msg["done"]
                fired = msg.get("fired") or {}
            elif "harness_error" in msg:
                herr = msg["harness_error"]
    except TimeoutError:
        os.kill(pid, signal.SIGKILL)
        herr = "branch timeout"
    finally:
        os.close(r_fd)
    _, status = os.waitpid(pid, 0)
    code = os.waitstatus_to_exitcode(status)
    out = {"exit": code, "trace": trace, "obs": done, "fired": fired}
    if herr:
        out["harness_error"] = herr
    return out


def serve(root, r_fd, w_fd, knobs):
    """Child main loop. Never returns."""
    try:
        faulthandler.enable()
        C.root = os.path.abspath(root)
        C.pool = {}
        seams.install(C.root)
        C.reg = _registry()
        _apply_knobs(knobs or {})
        rd = LineReader(r_fd)
        while True:
            req = rd.read()
            if req is None or req.get("k") == "exit":
                break
            k = req["k"]
            if k == "eval":
                faulthandler.dump_traceback_later(28, exit=True)
                seams.reset_effects()
                C.excs = []
                if "store" in req:
                    try:
                        val = ev(req["e"])
                        C.pool[req["store"]] = val
                        obs = canon(val)
                    except BaseException as ex:
                        if isinstance(ex, (KeyboardInterrupt, SystemExit)):
                            raise
                        _note_exc(ex)
                        obs = {"~exc": type(ex).__name__, "msg": _s(str(ex))[:200]}
                else:
                    obs = observe(req["e"])
                faulthandler.cancel_dump_traceback_later()
                fired = dict(seams.S.fired)
                seams.S.fired.clear()
                _send(w_fd, {"obs": obs, "fx": seams.take_effects(), "fired": fired, "excs": C.excs})
            elif k == "branch":
                _send(w_fd, _branch(req))
            elif k == "knobs":
                _apply_knobs(req["v"])
                _send(w_fd, {"ok": True})
            elif k == "drop":
                for n in req.get("names", []):
                    C.pool.pop(n, None)
                _send(w_fd, {"ok": True})
            else:
                _send(w_fd, {"harness_error": "unknown request %r" % k})
    except BaseException as ex:
        try:
            _send(w_fd, {"harness_error": "executor died: %r" % (ex,)})
        except BaseException:
            pass
        os._exit(4)
    os._exit(0)


# ----------------------------------------------------------------------------------------------
# Parent side handle


class HarnessError(Exception):
    pass


class Executor:
    """Parent-side handle on a forked executor child (an 'epoch' of the client)."""

    def __init__(self, root, knobs=None, fresh=None):
        p2c_r, p2c_w = os.pipe()
        c2p_r, c2p_w = os.pipe()
        sys.stdout.flush()
        sys.stderr.flush()
        if fresh:
            # a genuinely new interpreter instead of a fork of the pristine image (selftest only)
            import subprocess
            env = dict(os.environ, PYTHONWARNINGS="ignore", PYTHONDONTWRITEBYTECODE="1")
            verif = os.path.dirname(os.path.dirname(os.path.abspath(__file__)))
            env["PYTHONPATH"] = verif
            proc = subprocess.Popen([sys.executable, "-m", "dsim.executor_main", root, fresh, json.dumps(knobs or {})],
                                    stdin=p2c_r, stdout=c2p_w, env=env, cwd=verif, close_fds=True)
            os.close(p2c_r)
            os.close(c2p_w)
            self.pid = proc.pid
            self._proc = proc
            self.w = p2c_w
            self.rd = LineReader(c2p_r)
            self.alive = True
            return
        pid = os.fork()
        if pid == 0:
            os.close(p2c_w)
            os.close(c2p_r)
            serve(root, p2c_r, c2p_w, knobs)
            os._exit(0)
        os.close(p2c_r)
        os.close(c2p_w)
        self.pid = pid
        self.w = p2c_w
        self.rd = LineReader(c2p_r)
        self.alive = True

    def _rpc(self, req, timeout=30):
        try:
            data = (json.dumps(req) + "\n").encode()
            os.write(self.w, data)
            res = self.rd.read(timeout=timeout)
        except TimeoutError:
            self.kill()
            raise HarnessError("executor timeout on %s" % json.dumps(req)[:300])
        except OSError as ex:
            raise HarnessError("executor pipe error: %r" % (ex,))
        if res is None:
            raise HarnessError("executor closed pipe on %s" % json.dumps(req)[:300])
        if "harness_error" in res:
            raise HarnessError(res["harness_error"])
        return res

    def eval(self, e, store=None):
        req = {"k": "eval", "e": e}
        if store:
            req["store"] = store
        return self._rpc(req)

    def obs(self, e, store=None):
        return self.eval(e, store)["obs"]

    def branch(self, e, plan=None, knobs=None):
        return self._rpc({"k": "branch", "e": e, "plan": plan, "knobs": knobs})

    def knobs(self, **v):
        return self._rpc({"k": "knobs", "v": v})

    def drop(self, names):
        return self._rpc({"k": "drop", "names": list(names)})

    def close(self):
        if not self.alive:
            return
        self.alive = False
        try:
            os.write(self.w, b'{"k": "exit"}\n')
        except OSError:
            pass
        try:
            os.close(self.w)
        except OSError:
            pass
        try:
            os.close(self.rd.fd)
        except OSError:
            pass
        try:
            if getattr(self, "_proc", None) is not None:
                self._proc.wait()
            else:
                os.waitpid(self.pid, 0)
        except ChildProcessError:
            pass

    def kill(self):
        if not self.alive:
            return
        self.alive = False
        try:
            os.kill(self.pid, signal.SIGKILL)
        except ProcessLookupError:
            pass
        for fd in (self.w, self.rd.fd):
            try:
                os.close(fd)
            except OSError:
                pass
        try:
            os.waitpid(self.pid, 0)
        except ChildProcessError:
            pass
