"""Worker process: holds the pristine image (spil imported once, never called), PRNG, model, oracles.

Started by the orchestrator with a fixed PYTHONHASHSEED. Talks JSON lines on stdin/stdout.
"""
import argparse
import faulthandler
import importlib
import json
import logging
import os
import sys
import traceback


class Env:
    pass


def _setup(repo, conf_src=None):
    from .world import World
    world = World(repo, tag="w%d" % os.getpid(), conf_src=conf_src)
    os.environ["HOME"] = world.home
    os.environ.pop("SPIL_CONF_PATH", None)
    os.chdir(world.cwd)
    # configuration copy first, then the repo under test, then everything else
    sys.path[:] = [world.conf, os.path.abspath(repo)] + [p for p in sys.path if os.path.abspath(p or ".") not in (os.path.abspath(repo),)]
    sys.dont_write_bytecode = True
    import spil  # noqa: F401  -- the pristine image
    import resolva.utils
    resolva.utils.log.setLevel(logging.ERROR)
    spil_file = os.path.abspath(spil.__file__)
    if not spil_file.startswith(os.path.abspath(repo) + os.sep):
        raise RuntimeError("spil imported from %s, expected under %s" % (spil_file, repo))
    import spil_sid_conf
    if not os.path.abspath(spil_sid_conf.__file__).startswith(world.conf + os.sep):
        raise RuntimeError("configuration imported from %s" % spil_sid_conf.__file__)
    return world


def main():
    ap = argparse.ArgumentParser()
    ap.add_argument("--repo", default="/repo")
    ap.add_argument("--conf-src", default=None)
    args = ap.parse_args()

    proto_out = os.dup(1)
    devnull = os.open(os.devnull, os.O_WRONLY)
    os.dup2(devnull, 1)
    sys.stdout = open(os.devnull, "w")
    faulthandler.enable()

    def send(obj):
        data = (json.dumps(obj) + "\n").encode()
        view = memoryview(data)
        while len(view):
            n = os.write(proto_out, view)
            view = view[n:]

    env = Env()
    try:
        env.world = _setup(args.repo, args.conf_src)
        env.repo = os.path.abspath(args.repo)
        env.hash_seed = os.environ.get("PYTHONHASHSEED", "random")
        from .executor import Executor
        from .model import Model
        from . import x as X
        ex = Executor(env.world.root, {})
        obs = ex.obs(X.call("introspect"))
        ex.close()
        if X.is_exc(obs):
            raise RuntimeError("introspection failed: %r" % (obs,))
        env.spec = X.decode(obs)   # paths stay in canonical "<W>/..." form: the model is location independent
        env.model = Model(env.spec)
        env.cache = {}
    except BaseException:
        send({"ready": False, "error": traceback.format_exc()})
        return 2
    send({"ready": True, "hash_seed": env.hash_seed, "pid": os.getpid(), "world": env.world.root})

    from .run import execute
    from .profiles import get_profile
    rc = 0
    try:
        for line in sys.stdin:
            line = line.strip()
            if not line:
                continue
            req = json.loads(line)
            if req.get("cmd") == "exit":
                break
            try:
                if req.get("cmd") == "spec":
                    send({"id": req.get("id"), "spec": env.spec})
                    continue
                if req.get("cmd") == "typing":
                    ex = Executor(env.world.root, {})
                    try:
                        obs = ex.obs(X.seq(*[X.attr(X.call("Sid", st), "type") for st in req["strings"]]))
                    finally:
                        ex.close()
                    send({"id": req.get("id"), "types": [o if isinstance(o, str) else "" for o in obs["~seq"]]})
                    continue
                profile = get_profile(req["profile"])
                rp = req.get("replay")
                if rp is not None and rp.get("generate"):
                    rp = None   # forced routing only (selftest): generate under this worker's hash seed
                res = execute(env, profile, req["seed"], req.get("tier", "quick"), rp)
                res["id"] = req.get("id")
                send(res)
            except BaseException:
                send({"id": req.get("id"), "harness_error": traceback.format_exc()})
    finally:
        env.world.destroy()
    return rc


if __name__ == "__main__":
    sys.exit(main())
