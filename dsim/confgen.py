"""Generated configuration packages for C20 (DESIGN 5.12).

A small structural description (levels, vocabularies, path layout, mappings, routing) is emitted as a
configuration package (spil_sid_conf / spil_fs_*_conf / spil_data_conf). Variant 0 mirrors the demo
configuration; other variants apply seeded transformations that keep the documented conventions:
ordered templates per basetype, a leaf key per basetype, mutually exclusive value patterns per level,
path templates mirroring the Sid templates, one-to-one mappings.
"""
import copy
import json
import os
import random

from .rng import derive


def demo_desc():
    return {
        "variant": 0,
        "keys": {"project": "project", "type": "type", "leaf": "ext", "version": "version", "state": "state", "node": "node"},
        "projects": {"hamlet": "HAMLET"},              # sid value -> path value
        "states": {"w": "WORK", "p": "PUBLISH"},
        "fixed": "PROD",
        "sep": "_",
        "out": {"asset": "OUTPUT", "shot": "EXPORT"},
        "version": ["v", 3],
        "alias": {"cache": ["abc", "json", "fur", "grm", "vdb"], "hou": ["hip", "hipnc"], "maya": ["ma", "mb"],
                  "movie": ["mp4", "mov", "avi"]},
        "ext_groups": {"scenes": ["ma", "mb", "hip", "blend", "hou", "psd", "nk", "maya"],
                       "caches": ["abc", "json", "fur", "grm", "vdb", "cache"],
                       "movies": ["mp4", "mov", "avi", "movie"]},
        "file_types": [["file", "scenes", False], ["movie_file", "movies", True], ["cache_file", "caches", True]],
        "basetypes": [
            {"name": "asset", "code": "a", "folder": "ASSETS", "nodes": False,
             "levels": [["assettype", "closed", ["char", "location", "prop", "fx"]], ["asset", "free"],
                        ["task", "closed", ["art", "model", "surface", "rig"]]],
             "constant_first_level": True, "merged": None},
            {"name": "shot", "code": "s", "folder": "SHOTS", "nodes": True,
             "levels": [["sequence", "digits", "sq", 3], ["shot", "digits", "sh", 4],
                        ["task", "closed", ["board", "layout", "anim", "fx", "render", "comp"]]],
             "constant_first_level": False, "merged": [0, 1]},   # folder of level 1 is '<level0>_<level1>'
        ],
        "configs": {"local": "LOCAL", "server": "SERVER"},
        "default_config": "local",
    }


RENAMES = {"project": "show", "type": "kind", "leaf": "fmt", "version": "ver", "state": "status", "node": "obj"}
LEVEL_RENAMES = {"assettype": "cat", "asset": "thing", "task": "step", "sequence": "seq", "shot": "cut"}
BASE_RENAMES = {"asset": ["elem", "e", "ELEMS"], "shot": ["scene", "c", "SCENES"]}


# A key-name-only variant kept apart from the seeded ones: the demo configuration with its 'state' key CALLED 'frame'.
# FindInPaths hard-codes that key name (file sequence search); see known_findings.json / DESIGN 12.5.
FRAME_VARIANT = 900001


def make_variant(v):
    """Variant description number v (0 = mirror of the demo). Deterministic in v."""
    d = demo_desc()
    d["variant"] = v
    if v == 0:
        return d
    if v == FRAME_VARIANT:
        d["keys"]["state"] = "frame"
        d["transformations"] = ["key_named_frame"]
        return d
    rng = random.Random(derive(20, "variant", v))
    ops = ["rename_keys", "rename_levels", "rename_bases", "leaf_only", "separator", "folders", "vocab", "digits",
           "third_base", "third_config", "insert_level", "remove_level", "swap_vocab", "inline_patterns", "projects", "config_vocab", "leaf_per_base"]
    chosen = [o for o in ops if rng.random() < 0.35] or [rng.choice(ops)]
    d["transformations"] = chosen
    if "rename_keys" in chosen:
        for k, nv in RENAMES.items():
            if rng.random() < 0.7:
                d["keys"][k] = nv
    if "leaf_only" in chosen:
        d["keys"]["leaf"] = rng.choice(["fmt", "extension", "suffix"])
    if "rename_levels" in chosen:
        for b in d["basetypes"]:
            for lv in b["levels"]:
                if lv[0] in LEVEL_RENAMES and rng.random() < 0.7:
                    lv[0] = LEVEL_RENAMES[lv[0]]
    if "rename_bases" in chosen:
        for b in d["basetypes"]:
            if b["name"] in BASE_RENAMES and rng.random() < 0.8:
                old = b["name"]
                b["name"], b["code"], b["folder"] = BASE_RENAMES[old]
                d["out"][b["name"]] = d["out"].pop(old)
    if "separator" in chosen:
        d["sep"] = rng.choice(["-", "-", "-", "__"])   # never '.': WriteToPaths decides file-vs-folder by the presence of a suffix
    if "folders" in chosen:
        d["fixed"] = rng.choice(["WORK", "prod", "01_PROD"])
        for k in list(d["out"]):
            d["out"][k] = rng.choice(["OUT", "_output", "renders"])
        for k in list(d["states"]):
            d["states"][k] = {"w": "WIP", "p": "PUB"}.get(k, d["states"][k])
    if "vocab" in chosen:
        for b in d["basetypes"]:
            for lv in b["levels"]:
                if lv[1] == "closed" and rng.random() < 0.6:
                    lv[2] = [x.upper() if rng.random() < 0.5 else x + "2" for x in lv[2]]
    if "digits" in chosen:
        d["version"] = [rng.choice(["v", "V", "r"]), rng.choice([2, 3, 4])]
        for b in d["basetypes"]:
            for lv in b["levels"]:
                if lv[1] == "digits":
                    lv[3] = rng.choice([2, 3, 4])
    if "swap_vocab" in chosen:
        # sid vocabulary and path vocabulary swapped for the state mapping (one-to-one kept)
        d["states"] = {"WORK": "w", "PUBLISH": "p"}
    if "projects" in chosen:
        d["projects"] = {"hamlet": "HAMLET", "macbeth": "MCB", "lear": "lear_prj"}
    if "insert_level" in chosen:
        b = rng.choice(d["basetypes"])
        flat = [x for x in d["basetypes"] if not x["nodes"]]
        if flat and rng.random() < 0.6:
            b = rng.choice(flat)    # more often the basetype WITHOUT the optional node level: the shortest key list grows
        pos = rng.randrange(0, len(b["levels"]) + 1)
        if not (b["merged"] and pos <= max(b["merged"])):
            b["levels"].insert(pos, ["dept", "closed", ["d1", "d2", "d3"]])
    if "remove_level" in chosen:
        b = d["basetypes"][0]
        if len(b["levels"]) > 2 and not b["merged"]:
            b["levels"].pop(0)
            b["constant_first_level"] = False
    if "third_base" in chosen:
        d["basetypes"].append({"name": "lib", "code": "l", "folder": "LIBRARY", "nodes": False,
                               "levels": [["shelf", "closed", ["tex", "hdr", "ref"]], ["item", "free"],
                                          ["task", "closed", ["ingest", "clean"]]],
                               "constant_first_level": rng.random() < 0.5, "merged": None})
        d["out"]["lib"] = "OUT"
    if "third_config" in chosen:
        d["configs"]["backup"] = "BACKUP"
        if rng.random() < 0.3:
            d["default_config"] = "server"
    # ("inline_patterns" is a placeholder draw kept for stable variant numbering: every generated package writes its
    # value patterns inline in the templates and ships an empty key_patterns; the demo package itself exercises the
    # key_patterns / pattern_replacing route in every other check)
    chosen[:] = [c for c in chosen if c != "inline_patterns"] or ["rename_levels"]
    # (drawn from a generator of its own, so that the variants numbered before this transformation existed stay what they were)
    rng2 = random.Random(derive(21, "variant-declared", v))
    if rng2.random() < 0.3:
        # hand-declared intermediate levels of an extrapolated chain ("if a template already exists the generated type is
        # skipped"): same names and templates as extrapolation would generate, written out in the configuration
        chosen.append("declare_intermediate")
        d["declared_levels"] = {}
        for b in d["basetypes"]:
            if rng2.random() < 0.7:
                n = len(b["levels"])
                idx = sorted(rng2.sample(range(n), rng2.randint(1, min(2, n))))
                d["declared_levels"][b["name"]] = {"levels": idx, "where": rng2.choice(["first", "last"]),
                                                  "version": rng2.random() < 0.3}
    rng3 = random.Random(derive(22, "variant-typenames", v))
    if rng3.random() < 0.3:
        # type names with digits and upper case inside ('shot2__h264_file'): a type name is an identifier, not a word
        chosen.append("digits_in_type_names")
        for ftx in d["file_types"]:
            if ftx[0] == "movie_file":
                ftx[0] = "h264_file"
        b = rng3.choice(d["basetypes"])
        old_name = b["name"]
        b["name"] = old_name + "2"
        d["out"][b["name"]] = d["out"].pop(old_name)
        if d.get("declared_levels") and old_name in d["declared_levels"]:
            d["declared_levels"][b["name"]] = d["declared_levels"].pop(old_name)
    if rng2.random() < 0.3:
        # a type-specific path mapping next to the global one ("specific path mapping by type"): one file type names the
        # state folders / name parts its own way; one-to-one like every other mapping
        chosen.append("type_mapping")
        b = rng2.choice(d["basetypes"])
        ft = rng2.choice([x[0] for x in d["file_types"]])
        d["type_state_names"] = {"%s__%s" % (b["name"], ft): dict(zip(sorted(d["states"]), ["REVIEW", "DAILIES"]))}
    if rng2.random() < 0.3:
        # multi-word key names (an underscore inside the key, hence after the '__' of the type names built from it)
        chosen.append("underscore_keys")
        if d["keys"]["state"] == "state" or rng2.random() < 0.5:
            d["keys"]["state"] = "pub_state"
        for b in d["basetypes"]:
            for lv in b["levels"]:
                if "_" not in lv[0] and rng2.random() < 0.4:
                    lv[0] = lv[0] + "_name"
    # a derived shape worth its own mark (the variant selection covers every mark): the shortest key list is LONGER than the
    # shallowest leaf type (a basetype without the optional node level got deeper than the file level of one that has it)
    lens = [2 + len(b["levels"]) + 2 + (1 if b["nodes"] else 0) + 1 for b in d["basetypes"]]
    leafs = [2 + len(b["levels"]) + 2 + 1 for b in d["basetypes"]]
    if min(lens) > min(leafs):
        chosen.append("shortest_key_list_deeper_than_shallowest_leaf")
    d["transformations"] = chosen
    if "leaf_per_base" in chosen:
        # "a leaf key per basetype": the last basetype names its leaf key differently from the others
        d["basetypes"][-1]["leaf"] = "filetype"
    if "config_vocab" in chosen:
        # one path configuration with its own folder names and state vocabulary (still one-to-one): an archive
        # laid out differently from the working disks
        cname = sorted(d["configs"])[-1]
        d["config_overrides"] = {cname: {
            "states": {k: ("wip%d" % i if k != list(d["states"])[0] else "arch_w") for i, k in enumerate(d["states"])},
            "folders": {b["name"]: "LIB_" + b["folder"][:3] for b in d["basetypes"]},
            "fixed": "ARCHIVE",
        }}
    return d


# ---------------------------------------------------------------------------------------------
# emission

def _alts(values):
    return "(" + "|".join(list(values) + [r"\*", r"\>"]) + ")"


def _level_pattern(lv, d):
    if lv[1] == "closed":
        return _alts(lv[2])
    if lv[1] == "digits":
        return "(" + lv[2] + r"\d" * lv[3] + r"|\*|\>)"
    return None


def emit(d, dst):
    """Write the configuration package for description d into directory dst."""
    K = d["keys"]
    os.makedirs(dst, exist_ok=True)
    vpat = "(" + d["version"][0] + r"\d" * d["version"][1] + r"|\*|\>)"

    def ph(key, pat):
        return "{%s:%s}" % (key, pat) if pat else "{%s}" % key

    def sid_patterns(side):
        """inline placeholders for the sid side ('sid') or path side ('path')."""
        proj = _alts(d["projects"].keys() if side == "sid" else d["projects"].values())
        st = _alts(d["states"].keys() if side == "sid" else d["states"].values())
        return proj, st

    sid_templates = []
    key_types = {}
    leaf_keys = {}
    narrowing = {}
    to_extrapolate = []
    proj_s, state_s = sid_patterns("sid")
    for b in d["basetypes"]:
        LK = b.get("leaf") or K["leaf"]
        head = [ph(K["project"], proj_s), ph(K["type"], _alts([b["code"]]))]
        lv = [ph(x[0], _level_pattern(x, d)) for x in b["levels"]]
        body = head + lv + [ph(K["version"], vpat), ph(K["state"], state_s)]
        for ft, grp, _out in d["file_types"]:
            sid_templates.append(("%s__%s" % (b["name"], ft), "/".join(body + [ph(LK, _alts(d["ext_groups"][grp]))])))
        if b["nodes"]:
            sid_templates.append(("%s__cache_node_file" % b["name"],
                                  "/".join(body + [ph(K["node"], None), ph(LK, _alts(d["ext_groups"]["caches"]))])))
            sid_templates.append(("%s__cache_node" % b["name"], "/".join(body + [ph(K["node"], None)])))
        sid_templates.append(("%s__%s" % (b["name"], K["state"]), "/".join(body)))
        to_extrapolate.append("%s__%s" % (b["name"], K["state"]))
        sid_templates.append((b["name"], "/".join(head)))
        dl = (d.get("declared_levels") or {}).get(b["name"])
        if dl:
            extra = [("%s__%s" % (b["name"], b["levels"][i][0]), "/".join(head + lv[: i + 1])) for i in dl["levels"]]
            if dl.get("version"):
                extra.append(("%s__%s" % (b["name"], K["version"]), "/".join(head + lv + [ph(K["version"], vpat)])))
            if dl["where"] == "first":
                at = next(k for k, (n, _) in enumerate(sid_templates) if n.startswith(b["name"] + "__"))
                sid_templates[at:at] = extra
            else:
                sid_templates += extra
        keys = [K["project"], K["type"]] + [x[0] for x in b["levels"]] + [K["version"], K["state"]]
        if b["nodes"]:
            keys.append(K["node"])
        keys.append(LK)
        key_types[b["name"]] = keys
        leaf_keys[b["name"]] = LK
        narrowing[b["name"]] = "%s=~%s" % (K["type"], b["code"])
    sid_templates.append(("project", ph(K["project"], proj_s)))
    key_types["project"] = [K["project"]]
    leaf_keys["project"] = K["leaf"]

    sid_conf = [
        "# generated configuration (variant %d): %s" % (d["variant"], ", ".join(d.get("transformations", ["mirror of the demo"]))),
        "sip = '/'",
        "projects = %r" % list(d["projects"].keys()),
        "sid_templates = {",
    ]
    for n, t in sid_templates:
        sid_conf.append("    %r: %r," % (n, t))
    sid_conf += [
        "}",
        "to_extrapolate = %r" % to_extrapolate,
        "extension_alias = %r" % d["alias"],
        "key_patterns = {}",
        "key_types = %r" % key_types,
        "leaf_keys = %r" % leaf_keys,
        "leaf_keys[None] = %r" % K["leaf"],
        "basetyped_search_narrowing = %r" % narrowing,
        "typed_search_narrowing = {}",
        "first_level_values = %r" % {b["name"]: (b["levels"][0][2] if b["levels"][0][1] == "closed" else None) for b in d["basetypes"]},
    ]
    with open(os.path.join(dst, "spil_sid_conf.py"), "w") as f:
        f.write("\n".join(sid_conf) + "\n")

    # ---- path configurations
    proj_p, state_p = sid_patterns("path")
    sep = d["sep"]
    for cname, folder in d["configs"].items():
        ov = (d.get("config_overrides") or {}).get(cname, {})
        states = ov.get("states", d["states"])
        state_p = _alts(states.values())
        fixed = ov.get("fixed", d["fixed"])
        bfolder = {b["name"]: ov.get("folders", {}).get(b["name"], b["folder"]) for b in d["basetypes"]}
        lines = [
            "from pathlib import Path",
            "project_root_path = Path(__file__).parent / 'data' / 'testing' / 'SPIL_PROJECTS' / %r / 'PROJECTS'" % folder,
            "_root = project_root_path.as_posix()",
            "path_templates = {",
        ]
        for b in d["basetypes"]:
            LK = b.get("leaf") or K["leaf"]
            base = "{@root}/" + ph(K["project"], proj_p) + "/" + fixed + "/" + ph(K["type"], _alts([bfolder[b["name"]]]))
            lvph = [ph(x[0], _level_pattern(x, d)) for x in b["levels"]]
            folders = []
            for i, p in enumerate(lvph):
                if b["merged"] and i == b["merged"][1]:
                    folders.append(lvph[b["merged"][0]] + sep + p)
                else:
                    folders.append(p)
            vdir = base + "/" + "/".join(folders) + "/" + ph(K["version"], vpat)
            # file name repeats the levels (closed / digit levels and at most the free one), the state and the version
            name_parts = list(lvph)
            fname = sep.join(name_parts + [ph(K["state"], state_p), ph(K["version"], vpat)])
            for ft, grp, out in d["file_types"]:
                mid = ("/" + d["out"][b["name"]]) if out else ""
                tsn = (d.get("type_state_names") or {}).get("%s__%s" % (b["name"], ft))
                state_p = _alts(tsn.values()) if tsn else _alts(states.values())
                fname = sep.join(name_parts + [ph(K["state"], state_p), ph(K["version"], vpat)])
                if ft == "cache_file" and b["nodes"]:
                    # like the demo: the plain cache file omits the task in its name, the node file carries task and node
                    short = sep.join([p for i, p in enumerate(lvph) if b["levels"][i][0] not in ("task", "step")] +
                                     [ph(K["state"], state_p), ph(K["version"], vpat)])
                    nodef = sep.join(name_parts + [ph(K["node"], None), ph(K["state"], _alts(states.values())), ph(K["version"], vpat)])
                    lines.append("    %r: %r," % ("%s__cache_node_file" % b["name"],
                                                   vdir + mid + "/" + nodef + "." + ph(LK, _alts(d["ext_groups"]["caches"]))))
                    lines.append("    %r: %r," % ("%s__%s" % (b["name"], ft),
                                                   vdir + mid + "/" + short + "." + ph(LK, _alts(d["ext_groups"][grp]))))
                else:
                    lines.append("    %r: %r," % ("%s__%s" % (b["name"], ft),
                                                   vdir + mid + "/" + fname + "." + ph(LK, _alts(d["ext_groups"][grp]))))
            lines.append("    %r: %r," % ("%s__%s" % (b["name"], K["version"]), vdir))
            for i in range(len(b["levels"]) - 1, -1, -1):
                lines.append("    %r: %r," % ("%s__%s" % (b["name"], b["levels"][i][0]), base + "/" + "/".join(folders[: i + 1])))
            lines.append("    %r: %r," % (b["name"], base))
        lines.append("    'project': %r," % ("{@root}/" + ph(K["project"], proj_p)))
        lines += [
            "}",
            "path_templates = {k: v.replace('{@root}', _root) for k, v in path_templates.items()}",
            "key_patterns = {}",
            "path_defaults = {%r: %r}" % (K["state"], list(states.values())[0]),
            "sidkeys_to_extrakeys = {}",
            "extrakeys_to_sidkeys = {}",
            "path_mapping = {",
            "    %r: %r," % (K["project"], {v: k for k, v in d["projects"].items()}),
            "    %r: %r," % (K["type"], {bfolder[b["name"]]: b["code"] for b in d["basetypes"]}),
            "    %r: %r," % (K["state"], {v: k for k, v in states.items()}),
        ] + ["    %r: %r," % ((K["state"], tn), {v: k for k, v in names.items()})
             for tn, names in sorted((d.get("type_state_names") or {}).items())] + [
            "}",
            "search_path_mapping = {}",
        ]
        with open(os.path.join(dst, "spil_fs_%s_conf.py" % cname), "w") as f:
            f.write("\n".join(lines) + "\n")

    # ---- data configuration
    data = '''"""generated data configuration (variant %(variant)d)"""
from __future__ import annotations
from pathlib import Path

path_configs = %(path_configs)r
default_path_config = %(default)r
_BASES = %(bases)r          # name -> (code, first level key, first level is constant)
_STATE_KEY = %(state_key)r
_STATES = %(states)r
_TYPE_KEY = %(type_key)r


def get_finder_for(search_sid, config=None):
    from spil_sid_conf import projects, first_level_values  # type: ignore
    from spil import FindInConstants, FindInPaths
    finder_paths = FindInPaths()
    finder_projects = FindInConstants(%(project_key)r, projects)
    finder_types = FindInConstants(_TYPE_KEY, [b[0] for b in _BASES.values()], parent_source=finder_projects)
    finder_states = FindInConstants(_STATE_KEY, _STATES, parent_source=finder_paths)
    by_type = {'project': finder_projects, 'default': finder_paths}
    for name, (code, first_key, constant) in _BASES.items():
        by_type[name] = finder_types
        by_type[name + '__' + _STATE_KEY] = finder_states
        if constant:
            by_type[name + '__' + first_key] = FindInConstants(first_key, first_level_values[name], parent_source=finder_types)
    return by_type.get(search_sid.type) or by_type.get('default')


def get_getter_for(sid, attribute=None, config=None):
    from spil import GetFromPaths
    none_types = {'project'}
    for name, (code, first_key, constant) in _BASES.items():
        none_types.add(name)
        none_types.add(name + '__' + _STATE_KEY)
        if constant:
            none_types.add(name + '__' + first_key)
    if sid.type in none_types:
        return None
    return GetFromPaths()


def get_writer_for(sid):
    raise NotImplementedError("get_writer_for is not implemented")


path_data_suffix = '.data.json'
create_file_using_template = {}
create_file_using_touch = True


def get_data_json_path(sid_path: Path) -> Path:
    return sid_path.with_name('.' + sid_path.name).with_suffix(path_data_suffix)
''' % {
        "variant": d["variant"],
        "path_configs": {c: "spil_fs_%s_conf" % c for c in d["configs"]},
        "default": d["default_config"],
        "bases": {b["name"]: (b["code"], b["levels"][0][0], bool(b["constant_first_level"] and b["levels"][0][1] == "closed"))
                  for b in d["basetypes"]},
        "state_key": K["state"],
        "states": list(d["states"].keys()),
        "type_key": K["type"],
        "project_key": K["project"],
    }
    with open(os.path.join(dst, "spil_data_conf.py"), "w") as f:
        f.write(data)
    with open(os.path.join(dst, "variant.json"), "w") as f:
        json.dump(d, f, indent=1, sort_keys=True)
    os.makedirs(os.path.join(dst, "data", "testing"), exist_ok=True)
    return dst
