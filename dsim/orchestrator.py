"""Orchestrator: never imports spil. Spawns workers (one fixed PYTHONHASHSEED each), routes run seeds,
collects results, minimises failures, writes replay files and evidence."""
import json
import os
import selectors
import subprocess
import sys
import time
from collections import Counter, deque

from .rng import derive

VERIF = os.path.dirname(os.path.dirname(os.path.abspath(__file__)))
PY = sys.executable
N_HASH = 8


class HarnessFailure(Exception):
    pass


class Worker:
    def __init__(self, repo, hash_seed, conf_src=None):
        env = dict(os.environ)
        env["PYTHONHASHSEED"] = str(hash_seed)
        env["PYTHONDONTWRITEBYTECODE"] = "1"
        env["PYTHONWARNINGS"] = "ignore"
        env.pop("PYTHONPATH", None)
        cmd = [PY, "-m", "dsim.worker", "--repo", repo]
        if conf_src:
            cmd += ["--conf-src", conf_src]
        self.hash_seed = hash_seed
        self.p = subprocess.Popen(cmd, stdin=subprocess.PIPE, stdout=subprocess.PIPE, env=env, cwd=VERIF)
        self.buf = b""
        self.busy = None      # request in flight
        self.t0 = 0.0
        self.ready = False
        self.dead = False

    def send(self, req):
        self.busy = req
        self.t0 = time.time()
        self.p.stdin.write((json.dumps(req) + "\n").encode())
        self.p.stdin.flush()

    def feed(self):
        """Read available bytes; return list of decoded messages. Marks dead on EOF."""
        chunk = os.read(self.p.stdout.fileno(), 1 << 20)
        if not chunk:
            self.dead = True
            return []
        self.buf += chunk
        out = []
        while b"\n" in self.buf:
            line, self.buf = self.buf.split(b"\n", 1)
            if line.strip():
                out.append(json.loads(line))
        return out

    def stop(self):
        try:
            if self.p.poll() is None:
                try:
                    self.p.stdin.write(b'{"cmd": "exit"}\n')
                    self.p.stdin.flush()
                    self.p.stdin.close()
                except (BrokenPipeError, OSError):
                    pass
                try:
                    self.p.wait(timeout=10)
                except subprocess.TimeoutExpired:
                    self.p.kill()
                    self.p.wait()
        finally:
            pass

    def kill(self):
        if self.p.poll() is None:
            self.p.kill()
            self.p.wait()


def _sweep_stale_worlds():
    """Worlds of worker processes that no longer exist (a killed batch cannot clean up after itself): spilsim-w<pid>-*."""
    import re
    import shutil
    from .world import scratch_base
    base = scratch_base()
    try:
        names = os.listdir(base)
    except OSError:
        return
    for n in names:
        mt = re.match(r"spilsim-w(\d+)-", n)
        if mt and not os.path.exists("/proc/%s" % mt.group(1)):
            shutil.rmtree(os.path.join(base, n), ignore_errors=True)


class Pool:
    """Workers keyed by hash seed. Requests carry their hash seed; results come back unordered."""

    def __init__(self, repo, n_workers, hash_seeds=None, conf_src=None, req_timeout=600):
        _sweep_stale_worlds()
        self.repo = repo
        self.req_timeout = req_timeout
        hs = list(hash_seeds) if hash_seeds is not None else list(range(N_HASH))
        self.workers = []
        n_workers = max(n_workers, len(hs))
        for i in range(n_workers):
            self.workers.append(Worker(repo, hs[i % len(hs)], conf_src))
        self.sel = selectors.DefaultSelector()
        for w in self.workers:
            self.sel.register(w.p.stdout, selectors.EVENT_READ, w)
        self.queues = {}
        for w in self.workers:
            self.queues.setdefault(w.hash_seed, deque())
        self._wait_ready()

    def hash_seeds(self):
        return sorted(self.queues)

    def _wait_ready(self):
        deadline = time.time() + 120
        pending = set(self.workers)
        while pending:
            if time.time() > deadline:
                raise HarnessFailure("workers did not become ready")
            for key, _ in self.sel.select(timeout=1.0):
                w = key.data
                for msg in w.feed():
                    if "ready" in msg:
                        if not msg["ready"]:
                            raise HarnessFailure("worker failed to start:\n" + msg.get("error", ""))
                        w.ready = True
                        w.world = msg.get("world")
                        pending.discard(w)
                if w.dead and w in pending:
                    raise HarnessFailure("worker died during start-up")

    def submit(self, req, hash_seed):
        if hash_seed not in self.queues:
            hash_seed = sorted(self.queues)[hash_seed % len(self.queues)]
        self.queues[hash_seed].append(req)

    def pending(self):
        return sum(len(q) for q in self.queues.values()) + sum(1 for w in self.workers if w.busy)

    def queued(self, hash_seed=None):
        if hash_seed is None:
            return sum(len(q) for q in self.queues.values())
        return len(self.queues.get(hash_seed, ()))

    def _dispatch(self):
        for w in self.workers:
            if w.busy is None and not w.dead and self.queues[w.hash_seed]:
                w.send(self.queues[w.hash_seed].popleft())

    def poll(self, timeout=1.0):
        """Dispatch queued requests, return the list of results that arrived."""
        self._dispatch()
        out = []
        for key, _ in self.sel.select(timeout=timeout):
            w = key.data
            for msg in w.feed():
                req = w.busy
                w.busy = None
                msg["_req"] = req
                out.append(msg)
            if w.dead and w.busy is not None:
                raise HarnessFailure("worker (hash seed %s) died while running %s" % (w.hash_seed, json.dumps(w.busy)[:200]))
        now = time.time()
        for w in self.workers:
            if w.busy is not None and now - w.t0 > self.req_timeout:
                w.kill()
                raise HarnessFailure("worker timeout (%ds) on %s" % (self.req_timeout, json.dumps(w.busy)[:300]))
        self._dispatch()
        return out

    def call(self, req, hash_seed):
        """Synchronous single request (nothing else may be in flight)."""
        self._n = getattr(self, "_n", 0) + 1
        rid = "sync-%d" % self._n
        req = dict(req, id=rid)
        self.submit(req, hash_seed)
        while True:
            for msg in self.poll():
                if msg.get("id") == rid:
                    return msg
                raise HarnessFailure("unexpected message during synchronous call")

    def close(self):
        for w in self.workers:
            try:
                self.sel.unregister(w.p.stdout)
            except Exception:
                pass
            w.stop()
            # a worker that was killed (timeout) cannot remove its scratch world itself
            wr = getattr(w, "world", None)
            if wr and os.path.basename(wr).startswith("spilsim-") and os.path.isdir(wr):
                import shutil
                shutil.rmtree(wr, ignore_errors=True)


def hash_seed_of(seed):
    return derive(seed, "hashseed") % N_HASH


def run_seeds(base_seed, prop, n):
    return [derive(base_seed, prop, i) % (1 << 48) for i in range(n)]


def batch(pool, profile, seeds, tier, budget_s, on_result=None, stop_on_violation=True, replays=None,
          max_bad=None, bad=None):
    """Run the given seeds (or replays) through the pool. Returns list of results (completed ones)."""
    t0 = time.time()
    results = []
    it = iter(seeds)
    exhausted = False
    inflight = 0
    stop = False
    while True:
        # keep queues shallow so a violation or the budget stops the batch early
        while not exhausted and not stop and pool.queued() < len(pool.workers):
            if time.time() - t0 > budget_s:
                exhausted = True
                break
            try:
                s = next(it)
            except StopIteration:
                exhausted = True
                break
            req = {"id": len(results) + inflight, "profile": profile, "seed": s, "tier": tier}
            if replays and s in replays:
                req["replay"] = replays[s]
            h = hash_seed_of(s)
            if replays and s in replays and "force_hash" in replays[s]:
                h = replays[s]["force_hash"]
            pool.submit(req, h)
            inflight += 1
        if inflight == 0:
            break
        for msg in pool.poll(timeout=0.5):
            inflight -= 1
            results.append(msg)
            if on_result:
                on_result(msg)
            if msg.get("violations") and stop_on_violation and (bad is None or bad):
                stop = True     # (with a `bad` list the caller decides what counts: runs ending at a listed finding do not)
            if msg.get("harness_error"):
                stop = True
            if max_bad and bad is not None and len(bad) >= max_bad:
                stop = True
        if stop:
            # drain what is in flight, drop what is queued
            for q in pool.queues.values():
                inflight -= len(q)
                q.clear()
    return results
