"""One simulated run: seed -> parameters -> steps, executed against real code, checked by oracles."""
import hashlib
import os
import json
from collections import Counter

from .executor import Executor, HarnessError
from .model import Store
from .rng import rng_for, derive
from . import x as X


class Violation(Exception):
    pass


_EVLOG = os.environ.get("DSIM_EVLOG")


class Run:
    def __init__(self, env, profile, seed, tier, replay=None):
        self.env = env
        self.world = env.world
        self.m = env.model
        self.profile = profile
        self.seed = int(seed)
        self.tier = tier
        self.rng = rng_for(seed, profile.name, "ops")
        self.replay = replay
        self.params = None
        self.steps = []
        self.violations = []
        self.step_excs = []
        self.stats = Counter()
        self.fired = Counter()
        self.probes = Counter()
        self.states = set()
        self.cases = set()
        self.samples = []
        self._h = hashlib.sha256()
        self.nev = 0
        self.E = None
        self.store = Store(self.m)
        self.epochs = 0
        self.scratch = {}

    # -- knobs / epochs
    def knobs(self):
        p = self.params or {}
        k = {}
        if "capacity" in p:
            k["capacity"] = p["capacity"]
        k["listing"] = [p.get("listing", "sorted"), derive(self.seed, "listing") % (1 << 31)]
        return k

    def new_executor(self, **extra):
        k = self.knobs()
        k.update(extra)
        self.stats["forks"] += 1
        if (self.params or {}).get("fresh_epochs"):
            self.stats["fresh_interpreters"] += 1
            return Executor(self.world.root, k, fresh=self.env.repo)
        return Executor(self.world.root, k)

    def start_epoch(self):
        if self.E is not None:
            self.E.close()
        self.E = self.new_executor()
        self.epochs += 1
        self.stats["epochs"] += 1

    def close(self):
        if self.E is not None:
            self.E.close()
            self.E = None
        for k, v in list(self.scratch.items()):
            if isinstance(v, Executor):
                v.close()
                del self.scratch[k]

    # -- execution and logging
    def logev(self, *parts):
        self.nev += 1
        self._h.update(json.dumps(parts, sort_keys=True, default=str).encode())
        if _EVLOG:     # debugging aid only (never read back): the event log in clear, one file per run
            with open("%s.%s.%d.%d" % (_EVLOG, self.seed, os.getpid(), id(self)), "a") as f:
                f.write(json.dumps(parts, sort_keys=True, default=str)[:4000] + "\n")

    def do(self, e, store=None, ex=None):
        ex = ex or self.E
        r = ex.eval(e, store)
        self.stats["calls"] += 1
        self.logev("call", e, r["obs"], r.get("fx"))
        for k, v in (r.get("fired") or {}).items():
            self.fired[k] += v
        for x in r.get("excs") or []:
            if x not in self.step_excs and len(self.step_excs) < 8:
                self.step_excs.append(x)
        return r["obs"]

    def do_fx(self, e, ex=None):
        ex = ex or self.E
        r = ex.eval(e)
        self.stats["calls"] += 1
        self.logev("call", e, r["obs"], r.get("fx"))
        return r["obs"], r.get("fx") or []

    def digest(self):
        return self._h.hexdigest()[:20]

    def violation(self, oracle, detail, **extra):
        v = {"oracle": oracle, "detail": detail, "step": len(self.steps) - 1}
        if self.step_excs:
            v["exceptions_in_step"] = list(self.step_excs)    # [name, message, innermost spil frame]
        v.update(extra)
        self.violations.append(v)
        self.logev("violation", v)
        raise Violation(oracle)

    def check(self, cond, oracle, detail, **extra):
        self.stats["oracle_checks"] += 1
        if not cond:
            self.violation(oracle, detail, **extra)

    def sample(self, s):
        if len(self.samples) < 3:
            self.samples.append(s)

    def case_mark(self, *parts):
        """A distinct, non-trivial evaluated case (what evidence counts as distinct_nontrivial)."""
        self.cases.add(hashlib.sha1(json.dumps(parts, sort_keys=True, default=str).encode()).hexdigest()[:12])

    def state_mark(self, *parts):
        self.states.add(hashlib.sha1(json.dumps(parts, sort_keys=True, default=str).encode()).hexdigest()[:12])


def execute(env, profile, seed, tier, replay=None):
    """Generate-and-execute (or replay) one run. Returns a JSON-able result."""
    run = Run(env, profile, seed, tier, replay)
    err = None
    aborted = None
    try:
        if replay is not None:
            run.params = dict(replay["params"])
        else:
            run.params = profile.params(rng_for(seed, profile.name, "params"), tier)
        env.world.wipe()
        profile.setup(run)
        i = 0
        while True:
            if replay is not None:
                if i >= len(replay["steps"]):
                    break
                step = replay["steps"][i]
            else:
                step = profile.gen(run, i)
                if step is None:
                    break
            run.steps.append(step)
            run.step_excs = []
            try:
                profile.apply(run, step)
            except Violation:
                break
            finally:
                # logged AFTER the step ran: apply() may make a generated step concrete (a picked crash point), and the
                # digest of a generated run must equal the digest of the replay of its recorded steps
                run.logev("step", step)
            i += 1
        if not run.violations:
            try:
                profile.finish(run)
            except Violation:
                pass
    except HarnessError as ex:
        err = "HarnessError: %s" % ex
    except Exception:
        # an exception in the harness' own generator / model code (not an oracle verdict): this run is aborted and
        # reported as such; the check tolerates a few of them (see cli) rather than failing as a whole
        import traceback
        aborted = traceback.format_exc()
    finally:
        run.close()
    res = {
        "profile": profile.name,
        "property": profile.prop,
        "seed": run.seed,
        "tier": tier,
        "params": run.params,
        "steps": run.steps,
        "violations": run.violations,
        "digest": run.digest(),
        "events": run.nev,
        "stats": dict(run.stats),
        "fired": dict(run.fired),
        "probes": dict(run.probes),
        "states": sorted(run.states),
        "cases": sorted(run.cases),
        "samples": run.samples,
        "hash_seed": env.hash_seed,
    }
    if "obslog" in run.scratch:
        res["obslog"] = run.scratch["obslog"]
    if err:
        res["harness_error"] = err
    if aborted:
        res["aborted"] = aborted
        res["violations"] = []
    return res
