"""Command line: check / replay / selftest. Exit 0 = held, 1 = VIOLATION, 2 = harness failure."""
import argparse
import json
import os
import re
import sys
import time
from collections import Counter

from . import orchestrator as O
from .minimise import Minimiser
from .profiles import get_profile, PROPERTY_PROFILE
from .tiers import TIERS

VERIF = O.VERIF
EVIDENCE_DIR = os.path.join(VERIF, "evidence")
REPLAY_DIR = os.path.join(VERIF, "replays")
KNOWN = os.path.join(VERIF, "known_findings.json")


def load_known():
    if not os.path.exists(KNOWN):
        return []
    with open(KNOWN) as f:
        return json.load(f).get("findings", [])


def match_known(known, prop, violation, transformations=None):
    """A finding matches by property + oracle id (exact, or 'oracle_regex') + optional regexes over the canonical detail
    and over the exceptions seen in the failing step ([name, message, innermost spil frame]: the call site) + an optional
    configuration transformation the run's generated configuration must carry (C20)."""
    text = json.dumps(violation.get("detail"), sort_keys=True)
    for k in known:
        if k.get("status", "open") != "open" or (k["property"] != prop and prop not in k.get("also_under", [])):
            continue
        sig = k["signature"]
        if "oracle" in sig and sig["oracle"] != violation["oracle"]:
            continue
        if "oracle_regex" in sig and not re.fullmatch(sig["oracle_regex"], violation["oracle"]):
            continue
        if "oracle" not in sig and "oracle_regex" not in sig:
            continue
        if sig.get("detail_regex") and not re.search(sig["detail_regex"], text):
            continue
        if sig.get("exception_regex"):
            # EVERY exception of the failing step must be the listed one (a step that also saw another exception is
            # not explained by the finding), and there must be at least one
            triples = violation.get("exceptions_in_step") or []
            hit = [t for t in triples if re.fullmatch(sig["exception_regex"], json.dumps(t))]
            rest = [t for t in triples if t not in hit and t[0] not in sig.get("other_exceptions_allowed", [])]
            if not hit or rest:
                continue
        if sig.get("transformation") and sig["transformation"] not in (transformations or []):
            continue
        return k
    return None


def write_replay(res, prop):
    os.makedirs(REPLAY_DIR, exist_ok=True)
    path = os.path.join(REPLAY_DIR, "%s-%s.json" % (prop, res["seed"]))
    doc = {
        "property": prop,
        "profile": res["profile"],
        "seed": res["seed"],
        "tier": res["tier"],
        "hash_seed": res["hash_seed"],
        "params": res["params"],
        "steps": res["steps"],
        "expect": {"oracle": res["violations"][0]["oracle"], "detail": res["violations"][0].get("detail")},
        "digest": res["digest"],
    }
    with open(path, "w") as f:
        json.dump(doc, f, indent=1, sort_keys=True)
    return path


def write_evidence(prop, profile, tier, seed, results, wall, violations, extra=None):
    os.makedirs(EVIDENCE_DIR, exist_ok=True)
    stats, fired, probes = Counter(), Counter(), Counter()
    states = set()
    cases = set()
    samples = []
    knobs = Counter()
    events = 0
    for r in results:
        if "stats" not in r:
            continue
        stats.update(r["stats"])
        fired.update(r.get("fired") or {})
        probes.update(r.get("probes") or {})
        states.update(r.get("states") or [])
        cases.update(r.get("cases") or [])
        events += r.get("events", 0)
        for k, v in (r.get("params") or {}).items():
            if k in ("listing", "capacity", "variant", "junk", "big") and isinstance(v, (str, int, bool)):
                knobs["%s=%s" % (k, v)] += 1
        knobs["hash_seed=%s" % r.get("hash_seed")] += 1
        if len(samples) < 4 and r.get("steps"):
            samples.append({"seed": r["seed"], "params": r.get("params"), "steps": r["steps"][:8],
                            "detail": (r.get("samples") or [])[:2]})
    runs = sum(1 for r in results if "stats" in r)
    aborted_runs = sum(1 for r in results if r.get("aborted"))
    evaluations = profile.evaluations(stats, runs)
    cov = {
        "evaluations": int(evaluations),
        "distinct_nontrivial": len(cases),
        "distinct_states": len(states),
        "rule": profile.rule,
        "samples": samples or [{"note": "no run completed"}],
        "runs": runs,
        "aborted_runs": aborted_runs,
        "runs_per_hour": int(runs / wall * 3600) if wall > 0 else 0,
        "seeds": [r["seed"] for r in results[:8] if "seed" in r],
        "logical_steps": int(stats.get("calls", 0)),
        "events_logged": events,
        "simulated_time": "none: spil has no clock or timer; time is logical steps (calls and file-system effects)",
        "faults_fired": dict(fired),
        "reach_probes": dict(probes),
        "knobs": dict(knobs),
        "counters": dict(stats),
        "components": {
            "real": ["spil", "resolva", "configuration package (copy of /repo/spil_hamlet_conf)", "CPython pathlib/glob/json/io", "kernel tmpfs"],
            "simulated": ["process death (os._exit at effect/byte)", "restart (re-fork from pristine image)", "directory listing order",
                          "read errors", "sidecar corruption", "foreign files", "FindInList input list (from the model)"],
        },
        "exhaustive": False,
    }
    if extra:
        cov.update(extra)
    doc = {
        "property_id": prop,
        "tier": tier,
        "seed": int(seed),
        "level": profile.level,
        "coverage": cov,
        "assumptions": profile.assumptions,
        "wall_s": round(wall, 2),
        "violations": int(violations),
    }
    with open(os.path.join(EVIDENCE_DIR, prop + ".json"), "w") as f:
        json.dump(doc, f, indent=1, sort_keys=True)


def cmd_check(args):
    prop = args.property
    if prop in ("C20", "configs"):
        return cmd_check_c20(args)
    profile = get_profile(prop)
    tier = args.tier or os.environ.get("VERIF_TIER") or "quick"
    cfg = dict(TIERS[profile.name][tier])
    base_seed = int(args.seed if args.seed is not None else os.environ.get("VERIF_SEED", cfg.get("seed", 20261003)))
    n_runs = int(args.runs or cfg["runs"])
    budget = float(args.budget or os.environ.get("VERIF_BUDGET_S") or cfg["budget_s"])
    workers = int(args.workers or os.environ.get("VERIF_WORKERS") or min(16, os.cpu_count() or 8))
    t0 = time.time()
    pool = None
    rc = 0
    try:
        pool = O.Pool(args.repo, workers, req_timeout=cfg.get("req_timeout", 600))
        seeds = O.run_seeds(base_seed, prop, n_runs)
        bad = []
        known = load_known()
        known_runs = []

        def on_result(msg):
            # runs that end at an open, listed finding neither stop the batch nor use up its violation allowance
            if msg.get("violations"):
                (known_runs if match_known(known, prop, msg["violations"][0]) else bad).append(msg)

        results = O.batch(pool, profile.name, seeds, tier, budget, on_result=on_result,
                          stop_on_violation=bool(args.stop_first or args.mutant_mode),
                          max_bad=cfg.get("max_bad", 6), bad=bad)
        if hasattr(profile, "sweep") and not args.no_sweep:
            from .model import Model
            spec = pool.call({"cmd": "spec"}, 0)["spec"]
            cases = list(profile.sweep(Model(spec), tier))
            replays = {i: c for i, c in enumerate(cases)}
            left = max(10.0, budget - (time.time() - t0)) if tier == "quick" else budget
            sres = O.batch(pool, profile.name, list(replays), tier, left, on_result=on_result,
                           stop_on_violation=bool(args.stop_first or args.mutant_mode), replays=replays,
                           max_bad=cfg.get("max_bad", 6), bad=bad)
            sweep_info = {"bounded_sweep": {"sequences": len(cases), "executed": len(sres),
                                            "complete": len(sres) == len(cases)}}
            results = results + sres
        else:
            sweep_info = None
        herr = [r for r in results if r.get("harness_error")]
        if herr:
            print("HARNESS-ERROR: " + str(herr[0]["harness_error"])[:2000])
            rc = 2
        ab = [r for r in results if r.get("aborted")]
        if ab:
            print("WARNING: %d of %d runs aborted by an exception in the harness' own code (first: seed %s)\n%s"
                  % (len(ab), len(results), ab[0].get("seed"), str(ab[0]["aborted"])[-1200:]))
            if len(ab) > max(2, len(results) // 20):
                print("HARNESS-ERROR: too many aborted runs")
                rc = 2
        extra = profile.post_batch(pool, results, tier) if hasattr(profile, "post_batch") else None
        if sweep_info:
            extra = dict(extra or {}, **sweep_info)
        if extra and extra.get("violations"):
            bad.extend(extra.pop("violations"))
        # listed findings: one line each (the shortest run that reproduced it), no minimisation
        by_finding = {}
        for r in known_runs:
            k = match_known(known, prop, r["violations"][0])
            by_finding.setdefault(k["id"], (k, []))[1].append(r)
        for fid, (k, rs) in sorted(by_finding.items()):
            r0 = sorted(rs, key=lambda r: len(r["steps"]))[0]
            path = write_replay(r0, prop) if not args.mutant_mode else "-"
            print("KNOWN-FINDING: property=%s %s (replay=%s)" % (prop, k["what"], path))
        extra = dict(extra or {}, known_findings_reproduced={fid: len(rs) for fid, (k, rs) in by_finding.items()})
        # group violations by oracle, minimise one of each
        groups = {}
        for r in bad:
            groups.setdefault(r["violations"][0]["oracle"], []).append(r)
        n_viol = 0
        for oracle, rs in sorted(groups.items()):
            r0 = sorted(rs, key=lambda r: len(r["steps"]))[0]
            best = None
            if not args.no_minimise and "steps" in r0:
                best = Minimiser(pool, r0, budget=cfg.get("min_budget", 200)).run()
            final = best or r0
            path = write_replay(final, prop) if not args.mutant_mode else "-"
            k = match_known(known, prop, final["violations"][0])
            if k:
                print("KNOWN-FINDING: property=%s %s (replay=%s)" % (prop, k["what"], path))
            else:
                n_viol += 1
                print("VIOLATION property=%s replay=%s" % (prop, path))
                print("  oracle=%s seed=%s steps=%d %s" % (oracle, final["seed"], len(final["steps"]),
                                                         "" if best else "(not minimised)"))
                print("  detail=" + json.dumps(final["violations"][0].get("detail"))[:1500])
                if final["violations"][0].get("exceptions_in_step"):
                    print("  exceptions_in_step=" + json.dumps(final["violations"][0]["exceptions_in_step"])[:800])
        wall = time.time() - t0
        if not args.mutant_mode:
            write_evidence(prop, profile, tier, base_seed, results, wall, n_viol, extra)
        if n_viol and rc == 0:
            rc = 1
        runs = sum(1 for r in results if "stats" in r)
        print("%s %s: %d runs, %d violating, %d distinct oracle ids, %s%.1fs" % (
            prop, tier, runs, len(bad), len(groups), ("%d known findings, " % len(by_finding)) if by_finding else "", wall))
    except O.HarnessFailure as ex:
        print("HARNESS-ERROR: %s" % ex)
        rc = 2
    finally:
        if pool:
            pool.close()
    return rc


C20_PROFILES = ["paths", "finders", "derived", "algebra"]
C20_PROFILES_THOROUGH = C20_PROFILES + ["last", "crud", "getter", "values"]   # the other config-generic claimed profiles


def cmd_check_c20(args):
    """C20: the config-generic claimed oracles (C05, C11, C12, C10 relations) in processes started on generated
    configuration packages. Each variant gets its own worker pool (the package is first on the python path)."""
    import shutil
    import tempfile
    from . import confgen
    from .world import scratch_base
    prop = "C20"
    tier = args.tier or os.environ.get("VERIF_TIER") or "quick"
    cfg = dict(TIERS["configs"][tier])
    base_seed = int(args.seed if args.seed is not None else os.environ.get("VERIF_SEED", 20261003))
    budget = float(args.budget or os.environ.get("VERIF_BUDGET_S") or cfg["budget_s"])
    workers = int(args.workers or os.environ.get("VERIF_WORKERS") or min(16, os.cpu_count() or 8))
    n_var = int(args.runs or cfg["variants"])
    t0 = time.time()
    # variant 0 (mirror of the demo) + seeded variants chosen greedily so that every transformation kind is covered
    cand = [1 + (O.derive(base_seed, "c20variant", i) % 100000) for i in range(max(200, n_var * 4))]
    # greedy: every transformation kind at least once, the STRUCTURAL ones (other shapes of the template table, not only
    # other names) twice when the number of variants allows
    structural = {"insert_level", "remove_level", "third_base", "leaf_per_base", "declare_intermediate", "type_mapping", "underscore_keys", "digits_in_type_names", "shortest_key_list_deeper_than_shallowest_leaf",
                  "leaf_only", "separator"}
    trs = {v: set(confgen.make_variant(v).get("transformations", [])) for v in cand}
    variants, count = [0], Counter()
    pool_v = list(cand)
    while len(variants) < n_var and pool_v:
        def gain(v):
            return sum((2 if t in structural else 1) for t in trs[v] if count[t] == 0) + \
                   sum(1 for t in trs[v] if t in structural and count[t] == 1)
        best = max(pool_v[:120], key=lambda v: (gain(v), -pool_v.index(v)))
        pool_v.remove(best)
        variants.append(best)
        count.update(trs[best])
    if not args.mutant_mode:
        variants.insert(1, confgen.FRAME_VARIANT)     # key-name-only variant, see confgen.py (second: never dropped by the soft budget)
    if args.variant is not None:
        variants = [args.variant]
    tmp = tempfile.mkdtemp(prefix="spil-c20-", dir=scratch_base())
    results, bad = [], []
    per_variant = {}
    rc = 0
    known = load_known()
    profile = get_profile("paths")
    try:
        for vi, v in enumerate(variants):
            if time.time() - t0 > 2 * budget and vi > 0:   # soft budget: a loaded machine must not silently drop variants
                break
            desc = confgen.make_variant(v)
            pkg = confgen.emit(desc, os.path.join(tmp, "v%d" % v))
            pool = None
            try:
                pool = O.Pool(args.repo, workers, conf_src=pkg, req_timeout=cfg.get("req_timeout", 600))
                vres = []
                for pname in (C20_PROFILES_THOROUGH if (tier == "thorough" or args.all_profiles) else C20_PROFILES):
                    seeds = O.run_seeds(base_seed, "C20-%s-%d" % (pname, v),
                                        cfg["runs_per_profile"] // (2 if v == confgen.FRAME_VARIANT else 1))
                    vbad, vknown = [], []
                    tr = desc.get("transformations", [])

                    def on_result(m, vb=vbad, vk=vknown, tr=tr):
                        # runs that end at an open known finding do not use up the batch's violation allowance
                        if m.get("violations"):
                            (vk if match_known(known, prop, m["violations"][0], tr) else vb).append(m)
                    r = O.batch(pool, pname, seeds, tier, max(20.0, budget / max(1, len(variants))), stop_on_violation=args.mutant_mode,
                                on_result=on_result, max_bad=3, bad=vbad)
                    vbad += sorted(vknown, key=lambda q: len(q["steps"]))[:1]
                    for x in r:
                        x["variant"] = v
                    vres += r
                    # minimise inside this variant's pool (the replay needs this configuration)
                    groups = {}
                    for x in vbad:
                        groups.setdefault((x["violations"][0]["oracle"], bool(match_known(known, prop, x["violations"][0], tr))), []).append(x)
                    for (oracle, _), rs in sorted(groups.items()):
                        r0 = sorted(rs, key=lambda q: len(q["steps"]))[0]
                        is_known = match_known(known, prop, r0["violations"][0], tr)   # listed already: no need to shrink it again
                        best = None if (args.no_minimise or is_known) else Minimiser(pool, r0, budget=cfg.get("min_budget", 120)).run()
                        final = dict(best or r0)
                        final["variant"] = v
                        final["transformations"] = desc.get("transformations", [])
                        bad.append(final)
                results += vres
                per_variant[str(v)] = {"transformations": desc.get("transformations", ["mirror of the demo"]),
                                       "runs": sum(1 for x in vres if "stats" in x),
                                       "violating": sum(1 for x in vres if x.get("violations"))}
                herr = [x for x in vres if x.get("harness_error")]
                if herr:
                    print("HARNESS-ERROR (variant %d): %s" % (v, str(herr[0]["harness_error"])[:1500]))
                    rc = 2
            except O.HarnessFailure as ex:
                print("HARNESS-ERROR (variant %d %s): %s" % (v, desc.get("transformations"), str(ex)[:1500]))
                rc = 2
            finally:
                if pool:
                    pool.close()
                shutil.rmtree(pkg, ignore_errors=True)
        n_viol = 0
        seen = set()
        for final in bad:
            oracle = final["violations"][0]["oracle"]
            k = match_known(known, prop, final["violations"][0], final.get("transformations"))
            key = ("known", k["id"]) if k else (oracle, None)
            path = "-"
            if not args.mutant_mode:
                doc_path = write_replay(dict(final, profile=final["profile"]), prop)
                with open(doc_path) as f:
                    doc = json.load(f)
                doc["variant"] = final["variant"]
                doc["transformations"] = final.get("transformations")
                with open(doc_path, "w") as f:
                    json.dump(doc, f, indent=1, sort_keys=True)
                path = doc_path
            if k:
                if key not in seen:
                    print("KNOWN-FINDING: property=%s %s (replay=%s)" % (prop, k["what"], path))
            else:
                n_viol += 1
                print("VIOLATION property=%s replay=%s" % (prop, path))
                print("  variant=%s %s oracle=%s seed=%s steps=%d" % (final["variant"], final.get("transformations"), oracle,
                                                                   final["seed"], len(final["steps"])))
                print("  detail=" + json.dumps(final["violations"][0].get("detail"))[:1500])
                if final["violations"][0].get("exceptions_in_step"):
                    print("  exceptions_in_step=" + json.dumps(final["violations"][0]["exceptions_in_step"])[:800])
            seen.add(key)
        wall = time.time() - t0
        if not args.mutant_mode:
            class P:  # evidence adapter
                level = "exploration"
                rule = ("one case = one seeded run of a config-generic claimed profile (paths C05, finders C11, derived C12, algebra "
                        "C10 relations) in worker processes started with a generated configuration package first on the python path; "
                        "distinct = distinct case marks of those profiles, per variant")
                assumptions = profile.assumptions + ["generated variants keep the documented conventions (checked by construction, see confgen.py)"]

                @staticmethod
                def evaluations(stats, runs):
                    return runs
            for x in results:
                if x.get("cases"):
                    x["cases"] = ["%s:%s" % (x.get("variant"), c) for c in x["cases"]]
            write_evidence(prop, P, tier, base_seed, results, wall, n_viol,
                           {"variants": per_variant, "variants_run": len(per_variant),
                            "known_findings_reproduced": sorted(q[1] for q in seen if q[0] == "known"),
                            "profiles_per_variant": C20_PROFILES_THOROUGH if (tier == "thorough" or args.all_profiles) else C20_PROFILES})
        if n_viol and rc == 0:
            rc = 1
        print("C20 %s: %d variants, %d runs, %d violating groups, %d known findings, %.1fs"
              % (tier, len(per_variant), sum(1 for x in results if "stats" in x), n_viol, sum(1 for q in seen if q[0] == "known"), wall))
    finally:
        shutil.rmtree(tmp, ignore_errors=True)
    return rc


def cmd_replay(args):
    with open(args.file) as f:
        doc = json.load(f)
    prop = doc["property"]
    h = int(doc["hash_seed"]) if str(doc["hash_seed"]).isdigit() else 0
    pool = None
    pkg = None
    try:
        if doc.get("variant") is not None:
            import tempfile
            from . import confgen
            from .world import scratch_base
            pkg = confgen.emit(confgen.make_variant(doc["variant"]), tempfile.mkdtemp(prefix="spil-c20-", dir=scratch_base()))
        pool = O.Pool(args.repo, 1, hash_seeds=[h], conf_src=pkg)
        req = {"profile": doc["profile"], "seed": doc["seed"], "tier": doc.get("tier", "quick"),
               "replay": {"params": doc["params"], "steps": doc["steps"]}}
        r = pool.call(req, h)
        if r.get("harness_error"):
            print("HARNESS-ERROR: " + str(r["harness_error"])[:2000])
            return 2
        v = r.get("violations") or []
        if not v and doc["expect"]["oracle"].endswith("depends_on_hash_seed"):
            h2 = int(doc["expect"]["detail"].get("hash_seed_b", 0))
            pool2 = O.Pool(args.repo, 1, hash_seeds=[h2])
            try:
                r2 = pool2.call(req, h2)
            finally:
                pool2.close()
            if r2.get("obslog") != r.get("obslog"):
                idx = next((i for i, (a, b) in enumerate(zip(r["obslog"], r2["obslog"])) if a != b), None)
                v = [{"oracle": doc["expect"]["oracle"], "detail": {"hash_seed_a": str(h), "hash_seed_b": str(h2),
                                                                   "first_differing_call": idx}}]
        if v:
            same = v[0]["oracle"] == doc["expect"]["oracle"]
            print("VIOLATION property=%s replay=%s" % (prop, os.path.abspath(args.file)))
            print("  oracle=%s (%s) digest=%s (%s)" % (v[0]["oracle"], "as recorded" if same else "DIFFERENT from recorded " + doc["expect"]["oracle"],
                                                    r["digest"], "same" if r["digest"] == doc.get("digest") else "recorded " + str(doc.get("digest"))))
            print("  detail=" + json.dumps(v[0].get("detail"))[:1500])
            return 1
        print("replay passed: no violation (digest %s)" % r["digest"])
        return 0
    except O.HarnessFailure as ex:
        print("HARNESS-ERROR: %s" % ex)
        return 2
    finally:
        if pool:
            pool.close()
        if pkg:
            import shutil
            shutil.rmtree(pkg, ignore_errors=True)


def main(argv=None):
    ap = argparse.ArgumentParser(prog="check")
    sub = ap.add_subparsers(dest="cmd")
    c = sub.add_parser("check")
    c.add_argument("property")
    c.add_argument("--tier", choices=["quick", "thorough"])
    c.add_argument("--repo", default="/repo")
    c.add_argument("--seed", type=int)
    c.add_argument("--runs", type=int)
    c.add_argument("--budget", type=float)
    c.add_argument("--workers", type=int)
    c.add_argument("--no-minimise", action="store_true")
    c.add_argument("--stop-first", action="store_true")
    c.add_argument("--no-sweep", action="store_true")
    c.add_argument("--variant", type=int, help="C20: run this configuration variant only")
    c.add_argument("--all-profiles", action="store_true", help="C20: also run last, crud, getter, values per variant (thorough does)")
    c.add_argument("--mutant-mode", action="store_true", help="scratch copy under test: no evidence, no replay files, stop at the first violation")
    r = sub.add_parser("replay")
    r.add_argument("file")
    r.add_argument("--repo", default="/repo")
    s = sub.add_parser("selftest")
    s.add_argument("what", choices=["determinism", "mutants", "smoke", "model"])
    s.add_argument("--repo", default="/repo")
    s.add_argument("--properties", default="")
    s.add_argument("--seeds", type=int, default=0)
    args = ap.parse_args(argv)
    if args.cmd == "check":
        return cmd_check(args)
    if args.cmd == "replay":
        return cmd_replay(args)
    if args.cmd == "selftest":
        from . import selftest
        return selftest.main(args)
    ap.print_help()
    return 2


if __name__ == "__main__":
    sys.exit(main())
