"""Reference model: pure Python, config-driven, never imports spil (DESIGN 3.6).

Built from the plain-data description returned by confspec.introspect(). Its semantics are
independent of spil's code: typing = first template whose every pattern accepts its segment;
existence = what was created plus path ancestors; search ground truth only for simple star
searches; attribute data = overlay per sidecar key.
"""
import json
import posixpath
import re

_PH = re.compile(r"\{(\w+)(?::((?:\\\}|[^}])+))?\}")
DEFAULT_PATTERN = r"[^/]*"
SAFE_NAME = re.compile(r"^[A-Za-z0-9_.+\-]+$")


class TypeInfo:
    def __init__(self, name, template):
        self.name = name
        self.template = template
        self.keys = []
        self.patterns = []
        for seg in template.split("/"):
            m = _PH.fullmatch(seg)
            if not m:
                # literal segment in a sid template (not used by the demo); keep as fixed pattern
                self.keys.append(None)
                self.patterns.append(re.escape(seg))
                continue
            self.keys.append(m.group(1))
            self.patterns.append((m.group(2) or DEFAULT_PATTERN).replace("\\{", "{").replace("\\}", "}"))
        self.regex = [re.compile(p) for p in self.patterns]
        self.n = len(self.keys)

    def accepts(self, segs):
        if len(segs) != self.n:
            return False
        return all(r.fullmatch(s) for r, s in zip(self.regex, segs))


def parse_alternatives(pattern):
    """Return ('closed', [values]) | ('digits', prefix, width) | ('free',) | ('opaque',) for a key pattern."""
    p = pattern
    if p == DEFAULT_PATTERN:
        return ("free",)
    if p.startswith("(") and p.endswith(")"):
        p = p[1:-1]
    alts = p.split("|")
    lits, digits = [], None
    for a in alts:
        if a in (r"\*", r"\>", r"\<"):
            continue
        m = re.fullmatch(r"([A-Za-z_]*)((?:\\d)+)", a)
        if m:
            digits = (m.group(1), len(m.group(2)) // 2)
            continue
        if re.fullmatch(r"[A-Za-z0-9_.\-]+", a):
            lits.append(a)
            continue
        return ("opaque",)
    if digits and not lits:
        return ("digits", digits[0], digits[1])
    if lits and not digits:
        return ("closed", lits)
    return ("opaque",)


class PathTemplate:
    def __init__(self, type_name, template):
        self.type = type_name
        self.template = template
        self.keys = [m.group(1) for m in _PH.finditer(template)]
        self.fmt = _PH.sub(lambda m: "{" + m.group(1) + "}", template)
        regex = ""
        pos = 0
        seen = {}
        for m in _PH.finditer(template):
            regex += re.escape(template[pos:m.start()])
            k = m.group(1)
            pat = (m.group(2) or DEFAULT_PATTERN).replace("\\{", "{").replace("\\}", "}")
            seen[k] = seen.get(k, 0) + 1
            regex += "(?P<%s__%d>%s)" % (k, seen[k], pat)
            pos = m.end()
        regex += re.escape(template[pos:])
        self.regex = re.compile("^" + regex + "$")

    def resolve(self, path):
        """None if the path does not conform (including desynchronised duplicate fields)."""
        m = self.regex.match(path)
        if not m:
            return None
        data = {}
        for k, v in m.groupdict().items():
            k = k.rsplit("__", 1)[0]
            if k in data and data[k] != v:
                return None
            data[k] = v
        return data


class Model:
    def __init__(self, spec):
        self.spec = spec
        self.sep = spec["sep"]
        self.types = [TypeInfo(n, t) for n, t in spec["sid_templates"]]
        self.by_name = {t.name: t for t in self.types}
        self.leaf_keys = spec["leaf_keys"]
        self.alias = spec["extension_alias"]
        self.narrowing = spec["narrowing"]
        self.configs = sorted(spec["path_configs"])
        self.default_config = spec["default_path_config"] or self.configs[0]
        self.data_suffix = spec["data_suffix"]
        self.path = {}
        for c, d in spec["path"].items():
            self.path[c] = {
                "templates": [PathTemplate(n, t) for n, t in d["templates"]],
                "by_type": {},
                "mapping": d["mapping"],
                "defaults": d["defaults"],
            }
            for pt in self.path[c]["templates"]:
                self.path[c]["by_type"][pt.type] = pt
        self.routing = spec["routing"]

    # ---------------------------------------------------------------- typing
    def basetype(self, type_name):
        return type_name.split(self.sep)[0]

    def natural_type(self, string):
        if not string:
            return None
        segs = string.split("/")
        for t in self.types:
            if t.accepts(segs):
                return t.name
        return None

    def accepting_types(self, string):
        segs = string.split("/")
        return [t.name for t in self.types if t.accepts(segs)]

    def fields(self, type_name, string):
        t = self.by_name[type_name]
        return dict(zip(t.keys, string.split("/")))

    def uri(self, string, type_name=None):
        tn = type_name or self.natural_type(string)
        return (tn + ":" + string) if tn else string

    def is_leaf_type(self, type_name):
        t = self.by_name[type_name]
        return t.keys[-1] == self.leaf_keys.get(self.basetype(type_name))

    def parent_string(self, string):
        return string.rsplit("/", 1)[0] if "/" in string else string

    def vocab(self, type_name, key):
        t = self.by_name[type_name]
        return parse_alternatives(t.patterns[t.keys.index(key)])

    # ---------------------------------------------------------------- paths
    def has_path(self, type_name, cfg):
        return type_name in self.path[cfg]["by_type"]

    def path_of(self, type_name, fields, cfg):
        """Template-formatted path of a concrete Sid, or None when the type has no path template."""
        pc = self.path[cfg]
        pt = pc["by_type"].get(type_name)
        if pt is None:
            return None
        data = {}
        for k in pt.keys:
            if k in fields:
                v = fields[k]
                m = pc["mapping"].get(k)
                if m:
                    for pv, sv in m.items():
                        if sv == v:
                            v = pv
                            break
                m = pc["mapping"].get("%s|%s" % (k, type_name))
                if m:
                    for pv, sv in m.items():
                        if sv == fields[k]:
                            v = pv
                            break
                data[k] = v
            elif pc["defaults"].get(k):
                data[k] = pc["defaults"][k]
            else:
                return None
        if set(fields) - set(pt.keys):
            return None
        return pt.fmt.format(**data)

    def path_of_sid(self, string, cfg, type_name=None):
        tn = type_name or self.natural_type(string)
        if not tn:
            return None
        return self.path_of(tn, self.fields(tn, string), cfg)

    def resolve_path(self, path, cfg):
        """(type, sid string) that owns the path under cfg (first path template that accepts it), else None."""
        pc = self.path[cfg]
        for pt in pc["templates"]:
            data = pt.resolve(path)
            if data is None:
                continue
            t = self.by_name.get(pt.type)
            if t is None:
                continue
            vals = []
            ok = True
            for k in t.keys:
                if k not in data:
                    ok = False
                    break
                v = data[k]
                m = pc["mapping"].get(k)
                if m:
                    v = m.get(v, v)
                m2 = pc["mapping"].get("%s|%s" % (k, pt.type))
                if m2:
                    v = m2.get(v, v)
                vals.append(v)
            if not ok:
                continue
            s = "/".join(vals)
            if not t.accepts(vals):
                continue
            return pt.type, s
        return None

    def roots(self, cfg):
        tpls = [pt.template for pt in self.path[cfg]["templates"]]
        pre = posixpath.commonprefix(tpls)
        return pre[: pre.rfind("/") + 1] if "/" in pre else pre

    def sidecar_key(self, path):
        """(directory, name minus last suffix): Sids whose paths differ only by extension share it."""
        d, name = posixpath.split(path)
        stem = name
        i = name.rfind(".")
        if i > 0:
            stem = name[:i]
        return d + "/" + stem

    def sidecar_path(self, path):
        d, name = posixpath.split(path)
        hidden = "." + name
        i = hidden.rfind(".")
        if i > 0:
            hidden = hidden[:i]
        return d + "/" + hidden + self.data_suffix

    # ---------------------------------------------------------------- search ground truth
    def is_simple_star(self, search):
        """Only literals and '*' as whole segments; no alias name (aliases are syntax, not values)."""
        if "?" in search or not search:
            return False
        for seg in search.split("/"):
            if seg == "*":
                continue
            if not SAFE_NAME.match(seg) or seg in self.alias:
                return False
        return True

    @staticmethod
    def star_match(search, string):
        a, b = search.split("/"), string.split("/")
        if len(a) != len(b):
            return False
        return all(x == "*" or x == y for x, y in zip(a, b))

    def narrow(self, type_name, string):
        """Apply the configured basetype narrowing ('k=~v' pairs) to a typed star search string."""
        q = self.narrowing.get(self.basetype(type_name), "")
        if not q:
            return string
        t = self.by_name[type_name]
        segs = string.split("/")
        for pair in q.split("&"):
            if "=" not in pair:
                continue
            k, v = pair.split("=", 1)
            optional = v.startswith("~")
            v = v.replace("~", "")
            if k in t.keys:
                segs[t.keys.index(k)] = v
            elif not optional:
                return None
        if not t.accepts(segs):
            return None
        return "/".join(segs)

    def unfold_simple(self, search):
        """Typed searches (type, string) of a simple star search, by the model's own reading:
        every type whose template accepts the string, narrowed; duplicates removed."""
        out = []
        for tn in self.accepting_types(search):
            s = self.narrow(tn, search)
            if s is None:
                continue
            if self.natural_or_accepts(tn, s) and (tn, s) not in out:
                out.append((tn, s))
        return out

    def natural_or_accepts(self, tn, s):
        return self.by_name[tn].accepts(s.split("/"))


class Store:
    """Model of the durable state of one run: entities per config, attribute overlay per sidecar key."""

    def __init__(self, model):
        self.m = model
        self.entities = {c: {} for c in model.configs}   # cfg -> {string: type}
        self.attrs = {c: {} for c in model.configs}      # cfg -> {sidecar_key: dict}
        self.paths = {c: {} for c in model.configs}      # cfg -> {string: path}
        self.created = {c: [] for c in model.configs}    # creation order (directly created)
        self.own = {c: {} for c in model.configs}        # cfg -> {string: overlay of what was written to this Sid}

    def clone(self):
        s = Store(self.m)
        s.entities = {c: dict(v) for c, v in self.entities.items()}
        s.attrs = {c: {k: json.loads(json.dumps(d)) for k, d in v.items()} for c, v in self.attrs.items()}
        s.paths = {c: dict(v) for c, v in self.paths.items()}
        s.created = {c: list(v) for c, v in self.created.items()}
        s.own = {c: {k: json.loads(json.dumps(d)) for k, d in v.items()} for c, v in self.own.items()}
        return s

    def exists(self, cfg, string):
        return string in self.entities[cfg]

    def ancestors(self, cfg, string):
        """Path ancestors: typed prefixes whose model path is a directory prefix of this one's path."""
        m = self.m
        p = m.path_of_sid(string, cfg)
        out = []
        if p is None:
            return out
        segs = string.split("/")
        for k in range(1, len(segs)):
            pre = "/".join(segs[:k])
            tn = m.natural_type(pre)
            if not tn:
                continue
            pp = m.path_of_sid(pre, cfg)
            if pp and p.startswith(pp + "/"):
                out.append(pre)
        return out

    def can_create(self, cfg, string):
        """'ok' | 'nopath' | 'exists'"""
        tn = self.m.natural_type(string)
        if not tn or not self.m.has_path(tn, cfg):
            return "nopath"
        if string in self.entities[cfg]:
            return "exists"
        return "ok"

    def create(self, cfg, string, data=None):
        m = self.m
        for a in self.ancestors(cfg, string) + [string]:
            if a not in self.entities[cfg]:
                self.entities[cfg][a] = m.natural_type(a)
                self.paths[cfg][a] = m.path_of_sid(a, cfg)
        self.created[cfg].append(string)
        if data:
            self.write(cfg, string, data)

    def key_of(self, cfg, string):
        return self.m.sidecar_key(self.m.path_of_sid(string, cfg))

    def write(self, cfg, string, data):
        k = self.key_of(cfg, string)
        d = self.attrs[cfg].setdefault(k, {})
        d.update(json.loads(json.dumps(data)))
        self.own[cfg].setdefault(string, {}).update(json.loads(json.dumps(data)))

    def data(self, cfg, string):
        p = self.m.path_of_sid(string, cfg)
        if p is None:
            return None
        return dict(self.attrs[cfg].get(self.m.sidecar_key(p), {}))

    def shares_key(self, cfg, string):
        """Other existing entities that share this Sid's sidecar key (paths differing only by extension)."""
        k = self.key_of(cfg, string)
        return [s for s in self.entities[cfg] if s != string and self.key_of(cfg, s) == k]

    def listing(self, cfg):
        return sorted(self.entities[cfg])

    def find_simple(self, cfg, search):
        """Ground truth for a simple star search over this config's entities: set of uris."""
        return {self.m.uri(s, t) for s, t in self.entities[cfg].items() if self.m.star_match(search, s)}

    # -- FindInAll existence model (constant-backed levels answered from the constants)
    def find_all_simple(self, search):
        m = self.m
        out = set()
        for tn, s in m.unfold_simple(search):
            out |= self._find_all_typed(tn, s)
        return out

    def _route(self, tn):
        r = m_r = self.m.routing.get(tn) or {}
        return r.get("finder")

    def _find_all_typed(self, tn, s):
        m = self.m
        f = self._route(tn)
        if not f:
            return set()
        if f["class"] == "FindInPaths":
            cfg = f.get("config") or m.default_config
            return {m.uri(e, t) for e, t in self.entities[cfg].items() if t == tn and m.star_match(s, e)}
        if f["class"] == "FindInConstants":
            return {m.uri(x) for x in self._constants(f, tn, s)}
        return None  # unknown finder class: not modelled

    def _finder_find(self, f, search):
        """Model of finder.find(search) for a (possibly nested) finder description; strings."""
        m = self.m
        if f["class"] == "FindInPaths":
            cfg = f.get("config") or m.default_config
            out = set()
            for tn, s in m.unfold_simple(search):
                out |= {e for e, t in self.entities[cfg].items() if t == tn and m.star_match(s, e)}
            return out
        if f["class"] == "FindInConstants":
            out = set()
            for tn, s in m.unfold_simple(search):
                out |= self._constants(f, tn, s)
            return out
        return set()

    def _constants(self, f, tn, s):
        """FindInConstants(key, values, parent).star_search for one typed search: set of strings."""
        m = self.m
        t = m.by_name[tn]
        key = f["key"]
        if key not in t.keys:
            return set()
        i = t.keys.index(key)
        segs = s.split("/")
        root = segs[: i + 1]
        root_s = "/".join(root)
        if not m.natural_type(root_s):
            return set()
        if "*" not in root:
            return {root_s}
        parent = root[:-1]
        out = set()
        if "*" in parent and parent:
            if not f.get("parent"):
                return None
            for p in sorted(self._finder_find(f["parent"], "/".join(parent)) or ()):
                if root[-1] != "*":
                    cand = [p + "/" + root[-1]]
                else:
                    cand = [p + "/" + v for v in f["values"]]
                for c in cand:
                    if m.natural_type(c):
                        out.add(c)
            return out
        for v in f["values"]:
            c = "/".join(parent + [v]) if parent else v
            if m.natural_type(c):
                out.add(c)
        return out
