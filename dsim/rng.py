"""Seed derivation: one integer decides everything (DESIGN 3.4)."""
import hashlib
import random

MASK = (1 << 64) - 1


def splitmix64(x):
    x = (x + 0x9E3779B97F4A7C15) & MASK
    z = x
    z = ((z ^ (z >> 30)) * 0xBF58476D1CE4E5B9) & MASK
    z = ((z ^ (z >> 27)) * 0x94D049BB133111EB) & MASK
    return z ^ (z >> 31)


def derive(seed, *labels):
    """Derive a 64-bit sub-seed from a seed and labels (strings / ints), independent of hash seed."""
    h = hashlib.sha256()
    h.update(str(int(seed)).encode())
    for lab in labels:
        h.update(b"\x00")
        h.update(str(lab).encode())
    return splitmix64(int.from_bytes(h.digest()[:8], "big"))


def rng_for(seed, *labels):
    return random.Random(derive(seed, *labels))


def stable_perm(names, seed, *labels):
    """Deterministic permutation of a list of distinct strings, function of (content, seed)."""
    names = sorted(names)
    r = random.Random(derive(seed, *labels, "\x01".join(names)))
    out = list(names)
    r.shuffle(out)
    return out
