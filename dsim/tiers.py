"""Per-profile tier budgets: number of seeded runs and wall-clock cap (budget exhaustion is not an error)."""

TIERS = {
    "crash": {
        "quick": {"runs": 160, "budget_s": 80, "min_budget": 120},
        "thorough": {"runs": 4000, "budget_s": 540, "min_budget": 300},
    },
}
