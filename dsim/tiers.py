"""Per-profile tier budgets: number of seeded runs and wall-clock cap (budget exhaustion is not an error)."""

TIERS = {
    "configs": {
        "quick": {"variants": 8, "runs_per_profile": 40, "budget_s": 85, "min_budget": 100},
        "thorough": {"variants": 24, "runs_per_profile": 64, "budget_s": 560, "min_budget": 150},
    },
    "getter": {
        "quick": {"runs": 1600, "budget_s": 70, "min_budget": 150},
        "thorough": {"runs": 20000, "budget_s": 540, "min_budget": 300},
    },
    "versions": {
        "quick": {"runs": 1600, "budget_s": 70, "min_budget": 150},
        "thorough": {"runs": 20000, "budget_s": 540, "min_budget": 300},
    },
    "algebra": {
        "quick": {"runs": 1920, "budget_s": 70, "min_budget": 150},
        "thorough": {"runs": 20000, "budget_s": 540, "min_budget": 300},
    },
    "values": {
        "quick": {"runs": 1600, "budget_s": 70, "min_budget": 150},
        "thorough": {"runs": 20000, "budget_s": 540, "min_budget": 300},
    },
    "paths": {
        "quick": {"runs": 480, "budget_s": 70, "min_budget": 150},
        "thorough": {"runs": 16000, "budget_s": 540, "min_budget": 300},
    },
    "history": {
        "quick": {"runs": 160, "budget_s": 40, "min_budget": 150},
        "thorough": {"runs": 6000, "budget_s": 420, "min_budget": 300},
    },
    "derived": {
        "quick": {"runs": 1440, "budget_s": 80, "min_budget": 150},
        "thorough": {"runs": 20000, "budget_s": 540, "min_budget": 300},
    },
    "crud": {
        "quick": {"runs": 320, "budget_s": 80, "min_budget": 150},
        "thorough": {"runs": 8000, "budget_s": 540, "min_budget": 300},
    },
    "last": {
        "quick": {"runs": 1440, "budget_s": 80, "min_budget": 150},
        "thorough": {"runs": 20000, "budget_s": 540, "min_budget": 300},
    },
    "finders": {
        "quick": {"runs": 1440, "budget_s": 80, "min_budget": 150},
        "thorough": {"runs": 20000, "budget_s": 540, "min_budget": 300},
    },
    "crash": {
        "quick": {"runs": 128, "budget_s": 70, "min_budget": 120},
        "thorough": {"runs": 4000, "budget_s": 540, "min_budget": 300},
    },
}
