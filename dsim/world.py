"""The simulated world: a scratch directory holding the configuration package and the two 'disks'."""
import hashlib
import os
import shutil
import tempfile

DISK_REL = os.path.join("conf", "data", "testing", "SPIL_PROJECTS")


def scratch_base():
    base = os.environ.get("VERIF_SCRATCH")
    if base and os.path.isdir(base):
        return base
    if os.path.isdir("/dev/shm") and os.access("/dev/shm", os.W_OK):
        return "/dev/shm"
    return tempfile.gettempdir()


def _ignore(src, names):
    out = set()
    for n in names:
        if n in ("__pycache__", "SPIL_PROJECTS", "hamlet_tests", "hamlet_scripts") or n.endswith(".pyc"):
            out.add(n)
        if n == "hamlet.sids.txt":
            out.add(n)
    return out


class World:
    def __init__(self, repo, tag="w", conf_src=None):
        self.repo = os.path.abspath(repo)
        self.root = tempfile.mkdtemp(prefix=f"spilsim-{tag}-", dir=scratch_base())
        self.conf = os.path.join(self.root, "conf")
        self.home = os.path.join(self.root, "home")
        self.cwd = os.path.join(self.root, "cwd")
        self.snap = os.path.join(self.root, "snap")
        self.disks = os.path.join(self.root, DISK_REL)
        src = conf_src or os.path.join(self.repo, "spil_hamlet_conf")
        shutil.copytree(src, self.conf, ignore=_ignore)
        for d in (self.home, self.cwd, self.snap):
            os.makedirs(d, exist_ok=True)
        self.wipe()

    # -- disks
    def wipe(self):
        if os.path.isdir(self.disks):
            shutil.rmtree(self.disks)
        os.makedirs(os.path.join(self.disks, "LOCAL", "PROJECTS"))
        os.makedirs(os.path.join(self.disks, "SERVER", "PROJECTS"))

    def snapshot(self, name="s"):
        dst = os.path.join(self.snap, name)
        if os.path.isdir(dst):
            shutil.rmtree(dst)
        shutil.copytree(self.disks, dst, symlinks=True)
        return dst

    def restore(self, name="s"):
        src = os.path.join(self.snap, name)
        shutil.rmtree(self.disks)
        shutil.copytree(src, self.disks, symlinks=True)

    def tree(self):
        """Sorted list of (relative path, kind, size, sha1-of-content) for everything on the disks."""
        out = []
        base = self.disks
        for dirpath, dirnames, filenames in os.walk(base):
            dirnames.sort()
            rel = os.path.relpath(dirpath, base)
            if rel != ".":
                out.append((rel, "d", 0, ""))
            for fn in sorted(filenames):
                p = os.path.join(dirpath, fn)
                try:
                    with open(p, "rb") as f:
                        b = f.read()
                    out.append((os.path.relpath(p, base), "f", len(b), hashlib.sha1(b).hexdigest()))
                except OSError:
                    out.append((os.path.relpath(p, base), "?", 0, ""))
        out.sort()
        return out

    def digest(self):
        h = hashlib.sha256()
        for t in self.tree():
            h.update(repr(t).encode())
        return h.hexdigest()[:16]

    def sidecars(self):
        out = []
        for dirpath, dirnames, filenames in os.walk(self.disks):
            dirnames.sort()
            for fn in sorted(filenames):
                if fn.endswith(".data.json"):
                    out.append(os.path.join(dirpath, fn))
        return sorted(out)

    def rel(self, p):
        return os.path.relpath(p, self.root)

    def real(self, p):
        """Model path ("<W>/...") -> real path in this world."""
        return p.replace("<W>", self.root, 1) if p.startswith("<W>") else p

    def destroy(self):
        shutil.rmtree(self.root, ignore_errors=True)
