"""Self tests: smoke (setup), determinism (DESIGN 3.7), mutants (DESIGN 3.8)."""
import json
import os
import shutil
import subprocess
import sys
import tempfile
import time

from . import orchestrator as O
from .profiles import PROPERTY_PROFILE, get_profile
from .tiers import TIERS


def smoke(args):
    pool = O.Pool(args.repo, 1, hash_seeds=[0])
    try:
        for prop in sorted(PROPERTY_PROFILE):
            prof = get_profile(prop)
            r = pool.call({"profile": prof.name, "seed": 1, "tier": "quick"}, 0)
            if r.get("harness_error"):
                print("smoke: harness error in %s: %s" % (prop, r["harness_error"]))
                return 2
        print("smoke ok: %d profiles" % len(PROPERTY_PROFILE))
        return 0
    finally:
        pool.close()


def _digests(repo, profile, seeds, workers, tier="quick", env_extra=None):
    old = {}
    for k, v in (env_extra or {}).items():
        old[k] = os.environ.get(k)
        os.environ[k] = v
    try:
        pool = O.Pool(repo, workers)
    finally:
        for k, v in old.items():
            if v is None:
                os.environ.pop(k, None)
            else:
                os.environ[k] = v
    try:
        res = O.batch(pool, profile, seeds, tier, 3600, stop_on_violation=False)
    finally:
        pool.close()
    out = {}
    for r in res:
        if r.get("harness_error"):
            raise O.HarnessFailure(r["harness_error"])
        out[r["seed"]] = (r["digest"], r["events"], json.dumps(r["steps"], sort_keys=True), r["hash_seed"])
    return out


def determinism(args):
    """Each seed twice at different worker counts; schedules must not depend on the orchestrator's own hash seed."""
    props = [p for p in args.properties.split(",") if p] or sorted(PROPERTY_PROFILE)
    n = args.seeds or 48
    rc = 0
    report = {}
    for prop in props:
        prof = get_profile(prop)
        seeds = O.run_seeds(777, prop, n)
        t0 = time.time()
        a = _digests(args.repo, prof.name, seeds, 8)
        b = _digests(args.repo, prof.name, list(reversed(seeds)), 16)
        diff = [s for s in seeds if a.get(s) != b.get(s)]
        report[prop] = {"seeds": n, "mismatch": len(diff), "wall_s": round(time.time() - t0, 1)}
        if diff:
            rc = 2
            s = diff[0]
            print("DETERMINISM-FAILURE %s seed=%s\n  A=%s\n  B=%s" % (prop, s, a.get(s)[:2], b.get(s)[:2]))
        else:
            print("determinism ok: %s %d seeds x2 (8 and 16 workers, reversed order)" % (prop, n))
    os.makedirs(os.path.join(O.VERIF, "evidence"), exist_ok=True)
    with open(os.path.join(O.VERIF, "evidence", "selftest_determinism.json"), "w") as f:
        json.dump(report, f, indent=1, sort_keys=True)
    return rc


def mutants(args):
    """Apply each /verif/mutants/*.patch (and seeded/*/patch.diff) to a scratch copy; the quick check must alarm."""
    mdir = os.path.join(O.VERIF, "mutants")
    sdir = os.path.join(O.VERIF, "seeded")
    items = []
    if os.path.isdir(mdir):
        for fn in sorted(os.listdir(mdir)):
            if fn.endswith(".patch"):
                props = fn.split("-")[0].split("_")
                items.append((fn, os.path.join(mdir, fn), props))
    if os.path.isdir(sdir):
        for d in sorted(os.listdir(sdir)):
            pf = os.path.join(sdir, d, "patch.diff")
            mf = os.path.join(sdir, d, "meta.json")
            if os.path.exists(pf) and os.path.exists(mf):
                with open(mf) as f:
                    meta = json.load(f)
                items.append(("seeded/" + d, pf, [meta["property"]] + meta.get("also_checked_by", [])))
    only = [p for p in args.properties.split(",") if p]
    report = {}
    rc = 0
    base = tempfile.mkdtemp(prefix="spil-mutant-", dir=os.environ.get("VERIF_SCRATCH") or "/dev/shm")
    try:
        for name, patch, props in items:
            if only and not (set(only) & set(props)) and name not in only:
                continue
            scratch = os.path.join(base, "repo")
            if os.path.isdir(scratch):
                shutil.rmtree(scratch)
            subprocess.run(["git", "clone", "-q", "--no-hardlinks", args.repo, scratch], check=True)
            # working tree changes of /repo are part of the tree under test
            diff = subprocess.run(["git", "-C", args.repo, "diff", "HEAD"], capture_output=True, text=True).stdout
            if diff.strip():
                subprocess.run(["git", "-C", scratch, "apply"], input=diff, text=True, check=True)
            ap = subprocess.run(["git", "-C", scratch, "apply", patch], capture_output=True, text=True)
            if ap.returncode != 0:
                report[name] = {"status": "patch does not apply", "err": ap.stderr[-300:]}
                print("mutant %-40s DOES-NOT-APPLY" % name)
                rc = 2
                continue
            killed_by = []
            t0 = time.time()
            for prop in props:
                if prop not in PROPERTY_PROFILE:
                    continue
                p = subprocess.run([sys.executable, "-m", "dsim.cli", "check", prop, "--repo", scratch, "--no-minimise",
                                    "--mutant-mode"], cwd=O.VERIF, capture_output=True, text=True)
                if p.returncode == 1 and "VIOLATION property=" in p.stdout:
                    killed_by.append(prop)
                if p.returncode == 2:
                    report.setdefault(name, {})["harness"] = p.stdout[-300:]
            status = "killed" if killed_by else "SURVIVED"
            report.setdefault(name, {}).update({"status": status, "by": killed_by, "wall_s": round(time.time() - t0, 1), "targets": props})
            print("mutant %-40s %s %s" % (name, status, ",".join(killed_by)))
            if not killed_by:
                rc = 1
    finally:
        shutil.rmtree(base, ignore_errors=True)
    with open(os.path.join(O.VERIF, "evidence", "selftest_mutants.json"), "w") as f:
        json.dump(report, f, indent=1, sort_keys=True)
    return rc


def main(args):
    try:
        if args.what == "smoke":
            return smoke(args)
        if args.what == "determinism":
            return determinism(args)
        if args.what == "mutants":
            return mutants(args)
    except O.HarnessFailure as ex:
        print("HARNESS-ERROR: %s" % ex)
        return 2
    return 2
