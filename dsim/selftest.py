"""Self tests: smoke (setup), determinism (DESIGN 3.7), mutants (DESIGN 3.8)."""
import json
import os
import shutil
import subprocess
import sys
import tempfile
import time

from . import orchestrator as O
from .profiles import PROPERTY_PROFILE, get_profile
from .tiers import TIERS


def smoke(args):
    pool = O.Pool(args.repo, 1, hash_seeds=[0])
    try:
        for prop in sorted(PROPERTY_PROFILE):
            prof = get_profile(prop)
            r = pool.call({"profile": prof.name, "seed": 1, "tier": "quick"}, 0)
            if r.get("harness_error"):
                print("smoke: harness error in %s: %s" % (prop, r["harness_error"]))
                return 2
        print("smoke ok: %d profiles" % len(PROPERTY_PROFILE))
        return 0
    finally:
        pool.close()


def _digests(repo, profile, seeds, workers, tier="quick", env_extra=None):
    old = {}
    for k, v in (env_extra or {}).items():
        old[k] = os.environ.get(k)
        os.environ[k] = v
    try:
        pool = O.Pool(repo, workers)
    finally:
        for k, v in old.items():
            if v is None:
                os.environ.pop(k, None)
            else:
                os.environ[k] = v
    try:
        res = O.batch(pool, profile, seeds, tier, 3600, stop_on_violation=False)
    finally:
        pool.close()
    out = {}
    for r in res:
        if r.get("harness_error"):
            raise O.HarnessFailure(r["harness_error"])
        out[r["seed"]] = (r["digest"], r["events"], json.dumps(r["steps"], sort_keys=True), r["hash_seed"])
    return out


def determinism(args):
    """Each seed twice at different worker counts; schedules must not depend on the orchestrator's own hash seed."""
    props = [p for p in args.properties.split(",") if p] or sorted(PROPERTY_PROFILE)
    n = args.seeds or 48
    rc = 0
    report = {}
    for prop in props:
        prof = get_profile(prop)
        seeds = O.run_seeds(777, prop, n)
        t0 = time.time()
        a = _digests(args.repo, prof.name, seeds, 8)
        b = _digests(args.repo, prof.name, list(reversed(seeds)), 16)
        diff = [s for s in seeds if a.get(s) != b.get(s)]
        # (b) fork epochs vs genuinely fresh interpreters, (c) schedules independent of the worker's hash seed
        sub = seeds[: max(4, n // 6)]
        half = seeds[: max(4, n // 2)]
        pool = O.Pool(args.repo, 16)
        try:
            first = O.batch(pool, prof.name, half, "quick", 3600, stop_on_violation=False)
            by = {r["seed"]: r for r in first}
            # (d) the replay of a run's recorded steps is the run (same digest): what a replay file relies on
            again = O.batch(pool, prof.name, half, "quick", 3600, stop_on_violation=False,
                            replays={s: {"params": by[s]["params"], "steps": by[s]["steps"]} for s in half})
            rdiff = [r["seed"] for r in again if r.get("harness_error") or r["digest"] != by[r["seed"]]["digest"]]
            rep_fresh = {s: {"params": dict(by[s]["params"], fresh_epochs=True), "steps": by[s]["steps"]} for s in sub}
            fresh = O.batch(pool, prof.name, sub, "quick", 3600, stop_on_violation=False, replays=rep_fresh)
            rep_hash = {s: {"params": by[s]["params"], "steps": None, "force_hash": (int(by[s]["hash_seed"]) + 3) % 8} for s in sub}
            other = O.batch(pool, prof.name, sub, "quick", 3600, stop_on_violation=False,
                            replays={s: {"force_hash": v["force_hash"], "generate": True} for s, v in rep_hash.items()})
        finally:
            pool.close()
        fdiff = [r["seed"] for r in fresh if r.get("harness_error") or r["digest"] != by[r["seed"]]["digest"]]
        hdiff = [r["seed"] for r in other if r.get("harness_error") or
                 json.dumps(r["steps"], sort_keys=True) != json.dumps(by[r["seed"]]["steps"], sort_keys=True)]
        report[prop] = {"seeds": n, "mismatch": len(diff), "fresh_interpreter_seeds": len(sub), "fresh_interpreter_mismatch": len(fdiff),
                        "other_hash_seed_schedule_mismatch": len(hdiff),
                        "replay_seeds": len(half), "replay_of_recorded_steps_mismatch": len(rdiff), "wall_s": round(time.time() - t0, 1)}
        if rdiff:
            rc = 2
            print("DETERMINISM-FAILURE %s replay of recorded steps differs from the generated run: %s" % (prop, rdiff[:3]))
        if fdiff or hdiff:
            rc = 2
            print("DETERMINISM-FAILURE %s fresh-interpreter mismatch %s / schedule depends on hash seed %s" % (prop, fdiff[:3], hdiff[:3]))
        if diff:
            rc = 2
            s = diff[0]
            print("DETERMINISM-FAILURE %s seed=%s\n  A=%s\n  B=%s" % (prop, s, a.get(s)[:2], b.get(s)[:2]))
        else:
            print("determinism ok: %s %d seeds x2 (8 and 16 workers, reversed order); %d seeds fork==fresh interpreter: %s; schedule independent of hash seed: %s"
                  % (prop, n, len(sub), not fdiff, not hdiff))
    os.makedirs(os.path.join(O.VERIF, "evidence"), exist_ok=True)
    with open(os.path.join(O.VERIF, "evidence", "selftest_determinism.json"), "w") as f:
        json.dump(report, f, indent=1, sort_keys=True)
    return rc


def mutants(args):
    """Apply each /verif/mutants/*.patch (and seeded/*/patch.diff) to a scratch copy; the quick check must alarm."""
    mdir = os.path.join(O.VERIF, "mutants")
    sdir = os.path.join(O.VERIF, "seeded")
    items = []
    if os.path.isdir(mdir):
        for fn in sorted(os.listdir(mdir)):
            if fn.endswith(".patch"):
                props = fn.split("-")[0].split("_")
                items.append((fn, os.path.join(mdir, fn), props))
    if os.path.isdir(sdir):
        for d in sorted(os.listdir(sdir)):
            pf = os.path.join(sdir, d, "patch.diff")
            mf = os.path.join(sdir, d, "meta.json")
            if os.path.exists(pf) and os.path.exists(mf):
                with open(mf) as f:
                    meta = json.load(f)
                items.append(("seeded/" + d, pf, [meta["property"]] + meta.get("also_checked_by", [])))
    only = [p for p in args.properties.split(",") if p]
    report = {}
    rc = 0
    base = tempfile.mkdtemp(prefix="spil-mutant-", dir=os.environ.get("VERIF_SCRATCH") or "/dev/shm")
    try:
        for name, patch, props in items:
            if only and not (set(only) & set(props)) and name not in only:
                continue
            scratch = os.path.join(base, "repo")
            if os.path.isdir(scratch):
                shutil.rmtree(scratch)
            subprocess.run(["git", "clone", "-q", "--no-hardlinks", args.repo, scratch], check=True)
            # working tree changes of /repo are part of the tree under test
            diff = subprocess.run(["git", "-C", args.repo, "diff", "HEAD"], capture_output=True, text=True).stdout
            if diff.strip():
                subprocess.run(["git", "-C", scratch, "apply"], input=diff, text=True, check=True)
            ap = subprocess.run(["git", "-C", scratch, "apply", patch], capture_output=True, text=True)
            if ap.returncode != 0:
                report[name] = {"status": "patch does not apply", "err": ap.stderr[-300:]}
                print("mutant %-40s DOES-NOT-APPLY" % name)
                rc = 2
                continue
            killed_by = []
            t0 = time.time()
            for prop in props:
                if prop not in PROPERTY_PROFILE and prop != "C20":
                    continue
                p = subprocess.run([sys.executable, "-m", "dsim.cli", "check", prop, "--repo", scratch, "--no-minimise",
                                    "--mutant-mode"], cwd=O.VERIF, capture_output=True, text=True)
                if p.returncode == 1 and "VIOLATION property=" in p.stdout:
                    killed_by.append(prop)
                if p.returncode == 2:
                    report.setdefault(name, {})["harness"] = p.stdout[-300:]
            status = "killed" if killed_by else "SURVIVED"
            report.setdefault(name, {}).update({"status": status, "by": killed_by, "wall_s": round(time.time() - t0, 1), "targets": props})
            print("mutant %-40s %s %s" % (name, status, ",".join(killed_by)))
            if not killed_by:
                rc = 1
    finally:
        shutil.rmtree(base, ignore_errors=True)
    with open(os.path.join(O.VERIF, "evidence", "selftest_mutants.json"), "w") as f:
        json.dump(report, f, indent=1, sort_keys=True)
    # detection is a probability: keep the outcome per VERIF_SEED next to each other (merged over invocations)
    seed = str(os.environ.get("VERIF_SEED", "default"))
    hist_path = os.path.join(O.VERIF, "evidence", "selftest_mutants_by_seed.json")
    hist = {}
    if os.path.exists(hist_path):
        try:
            with open(hist_path) as f:
                hist = json.load(f)
        except ValueError:
            hist = {}
    for name, r in report.items():
        hist.setdefault(name, {})[seed] = "%s %s" % (r.get("status"), ",".join(r.get("by", [])))
    with open(hist_path, "w") as f:
        json.dump(hist, f, indent=1, sort_keys=True)
    return rc


def model_selftest(args):
    """The reference model against the real library on the demo configuration: typing of generated strings
    (concrete, search, junk) and template-formatted paths. A disagreement here means the ORACLE is suspect."""
    import random
    from .model import Model
    from . import x as X
    pool = O.Pool(args.repo, 1, hash_seeds=[0])
    try:
        spec = pool.call({"cmd": "spec"}, 0)["spec"]
        m = Model(spec)
        from .profiles.base import Vocab, gen_sid
        rng = random.Random(7)
        vocab = Vocab(m)
        strings = set()
        for t in vocab.usable_types():
            for _ in range(40):
                s = gen_sid(rng, m, vocab, t, {}, reuse=0)
                if s:
                    strings.add(s)
                    segs = s.split("/")
                    strings.add("/".join(segs[:-1] + ["*"]))
                    strings.add("/".join(segs[:-1] + ["zzz"]))
                    strings.add("/".join(segs + ["extra"]))
                    strings.add("/".join("*" if rng.random() < 0.4 else x for x in segs))
        strings = sorted(strings)
        r = pool.call({"cmd": "typing", "strings": strings}, 0)
        bad = [(s, t, m.natural_type(s) or "") for s, t in zip(strings, r["types"]) if (m.natural_type(s) or "") != t]
        print("model selftest: %d strings typed, %d disagreements" % (len(strings), len(bad)))
        for b in bad[:5]:
            print("  string=%r real=%r model=%r" % b)
        return 2 if bad else 0
    finally:
        pool.close()


def main(args):
    try:
        if args.what == "model":
            return model_selftest(args)
        if args.what == "smoke":
            return smoke(args)
        if args.what == "determinism":
            return determinism(args)
        if args.what == "mutants":
            return mutants(args)
    except O.HarnessFailure as ex:
        print("HARNESS-ERROR: %s" % ex)
        return 2
    return 2
